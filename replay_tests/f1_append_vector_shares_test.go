package lisp_test

import (
	"testing"

	"github.com/luthersystems/elps/lisp"
	"github.com/luthersystems/elps/parser"
)

// F1: (append 'vector v) with no values returns a vector that shares v's
// storage, so an in-place operation on the "new" vector changes v.
func TestF1AppendVectorNoValuesShares(t *testing.T) {
	env := lisp.NewEnv(nil)
	env.Runtime.Reader = parser.NewReader()
	if rc := lisp.InitializeUserEnv(env); !rc.IsNil() {
		t.Fatal(rc)
	}
	v := env.LoadString("t.lisp", `
(set 'v (vector 3 1 2))
(set 'w (append 'vector v))
(stable-sort < w)
v`)
	if got := v.String(); got != "(vector 3 1 2)" {
		t.Fatalf("v changed to %s after sorting the result of (append 'vector v)", got)
	}
}
