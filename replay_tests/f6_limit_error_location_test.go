package lisp_test

import (
	"context"
	"strings"
	"testing"

	"github.com/luthersystems/elps/lisp"
	"github.com/luthersystems/elps/parser"
)

// F6: eval consults checkLimits BEFORE it records the location of the form it
// is about to evaluate, so a cancellation / step-limit error raised at the
// first step of a load is located wherever the PREVIOUS evaluation stopped --
// in another source file.
// Failing obligation: (*lisp.LEnv).eval/assert-at checkLimits/a-limit-error-is-located-at-the-form-being-evaluated
func TestF6LimitErrorIsLocatedInTheSourceBeingLoaded(t *testing.T) {
	env := lisp.NewEnv(nil)
	env.Runtime.Reader = parser.NewReader()
	if rc := lisp.InitializeUserEnv(env); !rc.IsNil() {
		t.Fatal(rc)
	}
	if res := env.LoadString("first.lisp", "(set 'a 1)\n(set 'b 2)\n(+ a b)"); res.Type == lisp.LError {
		t.Fatal(res)
	}
	ctx, cancel := context.WithCancel(context.Background())
	cancel()
	res := env.LoadStringContext(ctx, "second.lisp", "\n\n   (+ 1 2)")
	if res.Type != lisp.LError {
		t.Fatalf("expected a context-cancelled error, got %v", res)
	}
	loc, _ := res.Source()
	if !strings.Contains(loc.String(), "second.lisp") {
		t.Fatalf("the error is located at %v, outside the source being loaded (second.lisp)", loc)
	}
}
