package minifier

import (
	"strings"
	"testing"
)

// F4: buildAssignments hands out x1, x2, ... without checking that the name is
// not one the program keeps.  Here the exported function is already called x1,
// so the renamed helper takes the same name and the minified program has two
// definitions of x1 (the second one wins).
// Failing obligation: minifier.buildAssignments/assert-at symbolLookupKey/a-minified-name-is-not-a-name-the-program-keeps
func TestF4MinifiedNameDoesNotCollideWithAKeptName(t *testing.T) {
	src := []byte("(in-package 'p)\n(export 'x1)\n(defun x1 () 42)\n(defun helper (a) (+ a (x1)))\n(helper 1)\n")
	out, symMap, err := MinifySource(src, "collide.lisp", nil)
	if err != nil {
		t.Fatal(err)
	}
	for _, e := range symMap.Entries {
		if e.Minified == "x1" && e.Original != "x1" {
			t.Fatalf("%q was renamed to x1, a name the program keeps (exported):\n%s", e.Original, out)
		}
	}
	if n := strings.Count(string(out), "(defun x1 "); n > 1 {
		t.Fatalf("the minified program defines x1 %d times:\n%s", n, out)
	}
}

// The same collision with an EXCLUDED name (Config.Exclusions feeds
// preservationSet.names, the set the failing obligation talks about).
func TestF4MinifiedNameDoesNotCollideWithAnExcludedName(t *testing.T) {
	src := []byte("(defun x1 () 42)\n(defun helper (a) (+ a (x1)))\n(helper 1)\n")
	out, symMap, err := MinifySource(src, "collide.lisp", &Config{Exclusions: map[string]bool{"x1": true}})
	if err != nil {
		t.Fatal(err)
	}
	for _, e := range symMap.Entries {
		if e.Minified == "x1" && e.Original != "x1" {
			t.Fatalf("%q was renamed to x1, an excluded name:\n%s", e.Original, out)
		}
	}
}
