package libschema_test

import (
	"testing"
)

// F10: the numeric bound constraints (s:gt, s:gte, s:lt, s:lte, s:positive,
// s:negative) were written as "refuse when the OPPOSITE comparison holds", and
// every comparison with a NaN is false, so a NaN satisfied all of them; a NaN
// bound likewise made the constraint accept every number.
// Failing obligations: libschema.builtinGreaterThan$1/ensures/floats-accepted-exactly-above
// and its five siblings.
func TestF10NumericBoundsRefuseNaN(t *testing.T) {
	const nan = `(set 'inf (* 1e308 10.0)) (set 'nan (- inf inf)) `
	for _, c := range []struct {
		name, src string
		valid      bool
	}{
		{"gt-nan", nan + `(s:deftype "t" s:number (s:gt 5)) (s:validate t nan)`, false},
		{"gte-nan", nan + `(s:deftype "t" s:number (s:gte 5)) (s:validate t nan)`, false},
		{"lt-nan", nan + `(s:deftype "t" s:number (s:lt 5)) (s:validate t nan)`, false},
		{"lte-nan", nan + `(s:deftype "t" s:number (s:lte 5)) (s:validate t nan)`, false},
		{"positive-nan", nan + `(s:deftype "t" s:number (s:positive)) (s:validate t nan)`, false},
		{"negative-nan", nan + `(s:deftype "t" s:number (s:negative)) (s:validate t nan)`, false},
		{"gt-nan-bound", nan + `(s:deftype "t" s:number (s:gt nan)) (s:validate t 1)`, false},
		{"gt-ok", `(s:deftype "t" s:number (s:gt 5)) (s:validate t 6)`, true},
		{"gt-equal", `(s:deftype "t" s:number (s:gt 5)) (s:validate t 5)`, false},
		{"gte-equal", `(s:deftype "t" s:number (s:gte 5)) (s:validate t 5)`, true},
		{"lt-ok", `(s:deftype "t" s:number (s:lt 5)) (s:validate t 4.5)`, true},
		{"lte-equal", `(s:deftype "t" s:number (s:lte 5)) (s:validate t 5.0)`, true},
		{"positive-zero", `(s:deftype "t" s:number (s:positive)) (s:validate t 0)`, false},
		{"negative-ok", `(s:deftype "t" s:number (s:negative)) (s:validate t -1)`, true},
	} {
		if got := validates(t, c.name, c.src); got != c.valid {
			t.Errorf("%s: validated=%v, want %v", c.name, got, c.valid)
		}
	}
}
