package libschema_test

import (
	"testing"
)

// F7: the s:bool type check (and s:is-true / s:is-false) compared the input's
// Str without looking at its Type, so the STRING "true" validated as a boolean.
// Failing obligation: libschema.builtinCheckBool$1/ensures/wrong-type-refused.
func TestF7BoolValidatorRefusesStrings(t *testing.T) {
	for _, c := range []struct {
		name, src string
		valid      bool
	}{
		{"bool-true", `(s:deftype "b" s:bool) (s:validate b true)`, true},
		{"bool-false", `(s:deftype "b" s:bool) (s:validate b false)`, true},
		{"string-true", `(s:deftype "b" s:bool) (s:validate b "true")`, false},
		{"string-false", `(s:deftype "b" s:bool) (s:validate b "false")`, false},
		{"is-true-on-string", `(s:deftype "b" s:any (s:is-true)) (s:validate b "true")`, false},
		{"is-false-on-string", `(s:deftype "b" s:any (s:is-false)) (s:validate b "false")`, false},
		{"is-true-on-true", `(s:deftype "b" s:any (s:is-true)) (s:validate b true)`, true},
		{"is-false-on-false", `(s:deftype "b" s:any (s:is-false)) (s:validate b false)`, true},
	} {
		if got := validates(t, c.name, c.src); got != c.valid {
			t.Errorf("%s: validated=%v, want %v", c.name, got, c.valid)
		}
	}
}
