package lisp_test

import (
	"testing"

	"github.com/luthersystems/elps/lisp"
	"github.com/luthersystems/elps/parser"
)

// F8: type? and new trust the shape of anything TAGGED lisp:typedef.  A program
// can mint such a value itself (deftype inside package lisp), and then
// typespec.Cells[0].Cells[0] indexes whatever the forged value holds.
// Failing obligation (C03 sweep): lisp.builtinIsType/index/args.Cells[0].Cells[0].Cells[0]
func TestF8ForgedTypedefDoesNotPanic(t *testing.T) {
	for _, src := range []string{
		"(in-package 'lisp) (deftype typedef (x) x) (in-package 'user) (set 'tv (new lisp:typedef 5)) (type? tv 1)",
		"(in-package 'lisp) (deftype typedef (x) x) (in-package 'user) (set 'tv (new lisp:typedef 5)) (new tv 1)",
		"(in-package 'lisp) (deftype typedef (x) x) (in-package 'user) (set 'tv (new lisp:typedef '())) (type? tv 1)",
	} {
		env := lisp.NewEnv(nil)
		env.Runtime.Reader = parser.NewReader()
		if rc := lisp.InitializeUserEnv(env); !rc.IsNil() {
			t.Fatal(rc)
		}
		res := env.LoadString("forged.lisp", src)
		if lisp.IsInternalPanic(res) {
			t.Errorf("internal panic for %s: %v", src, res)
		}
	}
}
