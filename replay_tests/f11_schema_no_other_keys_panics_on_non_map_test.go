package libschema_test

import (
	"context"
	"testing"

	"github.com/luthersystems/elps/lisp"
)

// F11: s:no-other-keys called input.Map() without checking the input's type.
// With no key constraint in front of it (nothing has refused the value yet) a
// non-map input made Map() panic: the validator answered with internal-panic.
// Failing obligation: libschema.builtinNoOtherKeys$1/ensures/non-map-refused-when-no-key-constraint-ran
func TestF11NoOtherKeysRefusesNonMaps(t *testing.T) {
	env := newSchemaEnv(t)
	res := env.LoadStringContext(context.Background(), "f11", `(s:deftype "T" s:any (s:no-other-keys)) (s:validate T 1)`)
	if lisp.IsInternalPanic(res) {
		t.Fatalf("internal panic: %v", res)
	}
	if res.Type != lisp.LError || res.Str != "wrong-type" {
		t.Fatalf("want a wrong-type error, got %v", res)
	}
}
