package lisp_test

import (
	"fmt"
	"testing"

	"github.com/luthersystems/elps/lisp"
	"github.com/luthersystems/elps/parser"
)

// F5: gensym spells its symbols gen%08d, which the reader accepts as an
// ordinary symbol, so a gensym is NOT distinct from every symbol the program
// text can contain: a program that writes the next spelling gets the same symbol.
// Failing obligation: (*lisp.Runtime).GenSym/ensures/the-spelling-cannot-be-written-in-source
func TestF5GensymIsDistinctFromProgramSymbols(t *testing.T) {
	env := lisp.NewEnv(nil)
	env.Runtime.Reader = parser.NewReader()
	if rc := lisp.InitializeUserEnv(env); !rc.IsNil() {
		t.Fatal(rc)
	}
	first := env.LoadString("probe.lisp", "(gensym)")
	if first.Type != lisp.LSymbol {
		t.Fatalf("gensym returned %v", first)
	}
	var n int
	if _, err := fmt.Sscanf(first.Str, "gen%d", &n); err != nil {
		t.Skipf("gensym spelling changed (%q): the finding no longer applies", first.Str)
	}
	next := fmt.Sprintf("gen%08d", n+1)
	res := env.LoadString("capture.lisp", fmt.Sprintf("(equal? (gensym) '%s)", next))
	if res.Type == lisp.LError {
		t.Fatal(res)
	}
	if lisp.True(res) {
		t.Fatalf("the symbol %s written in the program text is the symbol gensym returned", next)
	}
}
