package lisp_test

import (
	"context"
	"testing"

	"github.com/luthersystems/elps/lisp"
	"github.com/luthersystems/elps/parser"
)

func TestF2EvalCtxLeak(t *testing.T) {
	env := lisp.NewEnv(nil)
	env.Runtime.Reader = parser.NewReader()
	if rc := lisp.InitializeUserEnv(env); !rc.IsNil() {
		t.Fatal(rc)
	}
	ctx, cancel := context.WithCancel(context.Background())
	v := env.LoadStringContext(ctx, "a", "(if true 1 2)")
	if v.Type == lisp.LError {
		t.Fatalf("first load failed: %v", v)
	}
	cancel()
	v = env.LoadString("b", "(+ 1 2)")
	if v.Type == lisp.LError {
		t.Fatalf("second (context-free) load failed after the first load's context was cancelled: %v", v)
	}
}
