package libjson_test

import (
	"testing"

	"github.com/luthersystems/elps/lisp/lisplib/libjson"
)

// F3: the error reported for a JSON object with several out-of-range integers
// depends on Go map iteration order.
func TestF3ObjectErrorDeterministic(t *testing.T) {
	src := []byte(`{"a":99999999999999999999,"b":88888888888888888888,"c":77777777777777777777,"d":66666666666666666666,"e":55555555555555555555}`)
	seen := map[string]bool{}
	for i := 0; i < 200; i++ {
		v := libjson.LoadWith(src, libjson.LoadOpts{ExactIntegers: true})
		seen[v.String()] = true
	}
	if len(seen) != 1 {
		t.Fatalf("%d different results for the same input: %v", len(seen), seen)
	}
}
