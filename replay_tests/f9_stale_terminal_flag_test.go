package lisp_test

import (
	"testing"

	"github.com/luthersystems/elps/lisp"
	"github.com/luthersystems/elps/parser"
)

func runSrc(t *testing.T, src string) string {
	env := lisp.NewEnv(nil)
	env.Runtime.Reader = parser.NewReader()
	if rc := lisp.InitializeUserEnv(env); !rc.IsNil() {
		t.Fatal(rc)
	}
	v := env.LoadString("t.lisp", src)
	return v.String()
}

// After a tail-call iteration the function's frame keeps Terminal=true; a
// NON-tail self-call made under a terminal special operator in an earlier body
// form is then mistaken for a tail call and silently dropped.
func TestF9StaleTerminalFlag(t *testing.T) {
	src := `
(set 'count 0)
(defun f (n mode)
  (if (and (> n 0) (= mode 0)) (f n 1) ())
  (if (= mode 1)
      (set 'count (+ count 1))
      (if (> n 0) (f (- n 1) 0) count)))
(f 3 0)`
	got := runSrc(t, src)
	// every level n=3,2,1 performs the non-tail (f 0) call once: count = 3
	if got != "3" {
		t.Fatalf("got %s, want 3", got)
	}
}
