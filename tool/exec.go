package main

import (
	"fmt"
	"os"
	"go/constant"
	"go/token"
	"go/types"
	"strings"

	"golang.org/x/tools/go/ssa"
)

type retRec struct {
	st   *State
	vals []Val
}

type deferRec struct {
	instr *ssa.Defer
	flag  string // state variable: this defer statement was executed
	args  []Val
	fnv   Val
	seen  bool
}

type loopInfo struct {
	head    *ssa.BasicBlock
	body    map[*ssa.BasicBlock]bool
	ord     int
	spec    *LoopSpec
	headSt  *State
	frameVars []string
	keeps     bool
	freshOnly map[string]bool // written only at objects allocated inside the loop
	binds   map[string]Val
	decHead Term
}

type Frame struct {
	vc      *VC
	fn      *ssa.Function
	prefix  string
	curPos  token.Pos // position of the instruction being executed
	site    token.Pos // inlined frames: position of the outermost call in the function under verification
	vals    map[ssa.Value]Val
	depth   int
	spec    bool // spec mode: no obligations are generated
	top     bool
	rets    []retRec
	panics  []*State
	defers  []*deferRec
	inDefer int
	loops   map[*ssa.BasicBlock]*loopInfo
	inLoop  int
	binds   map[string]Val // parameter name -> value (for contracts)
	blockIn map[*ssa.BasicBlock]*State
}

func (vc *VC) newFrame(fn *ssa.Function, depth int, spec bool) *Frame {
	vc.inlineN++
	fr := &Frame{vc: vc, fn: fn, vals: map[ssa.Value]Val{}, depth: depth, spec: spec, binds: map[string]Val{},
		loops: map[*ssa.BasicBlock]*loopInfo{}, blockIn: map[*ssa.BasicBlock]*State{}}
	if depth > 0 || spec {
		fr.prefix = fmt.Sprintf("i%d_", vc.inlineN)
	}
	return fr
}

func (fr *Frame) bindParams(args []Val) {
	fn := fr.fn
	for i, p := range fn.Params {
		if i < len(args) {
			a := args[i]
			a.Ty = p.Type()
			fr.vals[p] = a
			fr.binds[p.Name()] = a
		}
	}
}

// ---------------------------------------------------------------- CFG helpers

func backEdge(from, to *ssa.BasicBlock) bool { return to.Dominates(from) }

func rpo(fn *ssa.Function) []*ssa.BasicBlock {
	seen := map[*ssa.BasicBlock]bool{}
	var post []*ssa.BasicBlock
	var dfs func(b *ssa.BasicBlock)
	dfs = func(b *ssa.BasicBlock) {
		seen[b] = true
		for _, s := range b.Succs {
			if backEdge(b, s) || seen[s] {
				continue
			}
			dfs(s)
		}
		post = append(post, b)
	}
	dfs(fn.Blocks[0])
	if fn.Recover != nil && !seen[fn.Recover] {
		// recover block is handled separately
	}
	for i, j := 0, len(post)-1; i < j; i, j = i+1, j-1 {
		post[i], post[j] = post[j], post[i]
	}
	return post
}

func findLoops(fn *ssa.Function) map[*ssa.BasicBlock]*loopInfo {
	loops := map[*ssa.BasicBlock]*loopInfo{}
	for _, b := range fn.Blocks {
		for _, s := range b.Succs {
			if !backEdge(b, s) {
				continue
			}
			li := loops[s]
			if li == nil {
				li = &loopInfo{head: s, body: map[*ssa.BasicBlock]bool{s: true}}
				loops[s] = li
			}
			// natural loop of back edge b -> s
			var stack []*ssa.BasicBlock
			if !li.body[b] {
				li.body[b] = true
				stack = append(stack, b)
			}
			for len(stack) > 0 {
				x := stack[len(stack)-1]
				stack = stack[:len(stack)-1]
				for _, p := range x.Preds {
					if !li.body[p] {
						li.body[p] = true
						stack = append(stack, p)
					}
				}
			}
		}
	}
	// ordinals in source order (by position of the header block's first instr, fall back to index)
	var heads []*ssa.BasicBlock
	for h := range loops {
		heads = append(heads, h)
	}
	sortBlocks(heads)
	for i, h := range heads {
		loops[h].ord = i + 1
	}
	return loops
}

func sortBlocks(bs []*ssa.BasicBlock) {
	for i := 1; i < len(bs); i++ {
		for j := i; j > 0 && blockPos(bs[j]) < blockPos(bs[j-1]); j-- {
			bs[j], bs[j-1] = bs[j-1], bs[j]
		}
	}
}

func blockPos(b *ssa.BasicBlock) int {
	// loop headers created by the builder are in source order by index
	return b.Index
}

// ---------------------------------------------------------------- running a frame

func (fr *Frame) run(st0 *State) {
	vc := fr.vc
	fn := fr.fn
	if len(fn.Blocks) == 0 {
		return
	}
	fr.loops = findLoops(fn)
	if fr.top && fr.vc.con != nil {
		for h, li := range fr.loops {
			_ = h
			li.spec = fr.vc.con.Loops[li.ord]
		}
		for ord := range fr.vc.con.Loops {
			found := false
			for _, li := range fr.loops {
				if li.ord == ord {
					found = true
				}
			}
			if !found {
				vc.eng.errorf("%s: contract names loop %d but the function has %d loops (contract target changed)", vc.fnName(), ord, len(fr.loops))
			}
		}
	}
	// deferred calls: one state flag per defer statement
	if fr.top {
		for _, b := range fn.Blocks {
			for _, in := range b.Instrs {
				if d, ok := in.(*ssa.Defer); ok {
					flag := vc.heapVar(fmt.Sprintf("DF_%d", len(fr.defers)), "Bool")
					fr.defers = append(fr.defers, &deferRec{instr: d, flag: flag})
					st0.heap[flag] = "false"
				}
			}
		}
	}
	order := rpo(fn)
	out := map[*ssa.BasicBlock]*State{}
	for _, b := range order {
		var in *State
		var edges []*State
		var preds []*ssa.BasicBlock
		if b == fn.Blocks[0] {
			in = st0
		} else {
			for _, p := range b.Preds {
				if backEdge(p, b) {
					continue
				}
				ps := out[p]
				if ps == nil {
					continue
				}
				es := ps.clone()
				es.reach = fr.edgeReach(ps, p, b)
				edges = append(edges, es)
				preds = append(preds, p)
			}
			if len(edges) == 0 {
				continue
			}
			in = vc.merge(edges)
		}
		li := fr.loops[b]
		if li != nil {
			in = fr.enterLoop(li, in, edges, preds)
		} else {
			// phis
			for _, instr := range b.Instrs {
				phi, ok := instr.(*ssa.Phi)
				if !ok {
					break
				}
				fr.definePhi(phi, b, edges, preds)
			}
		}
		fr.blockIn[b] = in
		st := in
		alive := true
		if fr.top {
			vc.curBlock = b
		}
		for _, instr := range b.Instrs {
			if _, ok := instr.(*ssa.Phi); ok {
				continue
			}
			if !fr.step(st, instr) {
				alive = false
				break
			}
		}
		if !alive {
			continue
		}
		out[b] = st
		// back edges leaving b
		for _, s := range b.Succs {
			if backEdge(b, s) {
				es := st.clone()
				es.reach = fr.edgeReach(st, b, s)
				fr.closeLoop(fr.loops[s], es, b)
			}
		}
	}
}

func (fr *Frame) edgeReach(ps *State, p, b *ssa.BasicBlock) Term {
	vc := fr.vc
	last := p.Instrs[len(p.Instrs)-1]
	cond := "true"
	if iff, ok := last.(*ssa.If); ok {
		c := fr.val(iff.Cond).T
		if p.Succs[0] == b && p.Succs[1] == b {
			cond = "true"
		} else if p.Succs[0] == b {
			cond = c
		} else {
			cond = smtNot(c)
		}
	}
	r := smtAnd(ps.reach, cond)
	return vc.define(fmt.Sprintf("%sedge_b%d_b%d", fr.prefix, p.Index, b.Index), "Bool", r)
}

func (vc *VC) merge(edges []*State) *State {
	if len(edges) == 1 {
		return edges[0]
	}
	st := &State{heap: map[string]Term{}}
	var rs []Term
	for _, e := range edges {
		rs = append(rs, e.reach)
	}
	st.reach = vc.define("reach", "Bool", smtOr(rs...))
	names := map[string]bool{}
	for _, e := range edges {
		for k := range e.heap {
			names[k] = true
		}
	}
	for _, k := range sortedKeys(names) {
		same := true
		first := vc.get(edges[0], k)
		for _, e := range edges[1:] {
			if vc.get(e, k) != first {
				same = false
			}
		}
		if same {
			st.heap[k] = first
			continue
		}
		n := vc.freshConst(k, vc.heapSort[k])
		for _, e := range edges {
			vc.assume(smtImp(e.reach, smtEq(n, vc.get(e, k))))
		}
		st.heap[k] = n
	}
	// locals: union
	seen := map[string]bool{}
	for _, e := range edges {
		for _, l := range e.locals {
			if !seen[l.ref] {
				seen[l.ref] = true
				st.locals = append(st.locals, l)
			}
		}
	}
	return st
}

func (fr *Frame) definePhi(phi *ssa.Phi, b *ssa.BasicBlock, edges []*State, preds []*ssa.BasicBlock) {
	vc := fr.vc
	sort := vc.sortOf(phi.Type())
	// all incoming equal?
	var vs []Val
	for _, p := range preds {
		idx := predIndex(b, p)
		vs = append(vs, fr.val(phi.Edges[idx]))
	}
	if len(vs) == 0 {
		fr.vals[phi] = Val{T: vc.freshConst(fr.prefix+phi.Name(), sort), Ty: phi.Type()}
		return
	}
	for _, v := range vs {
		if v.Place != nil || v.Tuple != nil {
			vc.unsupported("phi of field address in " + fr.fn.String())
			fr.vals[phi] = Val{T: vc.freshConst(fr.prefix+phi.Name(), sort), Ty: phi.Type()}
			return
		}
	}
	n := vc.freshConst(fr.prefix+phi.Name(), sort)
	for i, v := range vs {
		vc.assume(smtImp(edges[i].reach, smtEq(n, v.T)))
	}
	fr.vals[phi] = Val{T: n, Ty: phi.Type()}
}

func predIndex(b, p *ssa.BasicBlock) int {
	for i, q := range b.Preds {
		if q == p {
			return i
		}
	}
	return -1
}

// ---------------------------------------------------------------- loops

func (fr *Frame) loopBinds(li *loopInfo, pick func(phi *ssa.Phi) Val) map[string]Val {
	binds := map[string]Val{}
	for k, v := range fr.binds {
		binds[k] = v
	}
	for _, instr := range li.head.Instrs {
		phi, ok := instr.(*ssa.Phi)
		if !ok {
			break
		}
		if phi.Comment != "" {
			binds[phi.Comment] = pick(phi)
			// "rangeint.iter" (range over an integer) is written rangeint_iter in contracts
			binds[strings.ReplaceAll(phi.Comment, ".", "_")] = pick(phi)
		}
		binds[phi.Name()] = pick(phi)
	}
	return binds
}

func (fr *Frame) enterLoop(li *loopInfo, in *State, edges []*State, preds []*ssa.BasicBlock) *State {
	vc := fr.vc
	b := li.head
	if !fr.top && !fr.spec {
		vc.unsupported("loop in inlined function " + fr.fn.String())
	}
	// entry values of the header phis
	entryVals := map[*ssa.Phi]Val{}
	for _, instr := range b.Instrs {
		phi, ok := instr.(*ssa.Phi)
		if !ok {
			break
		}
		fr.definePhi(phi, b, edges, preds)
		entryVals[phi] = fr.vals[phi]
	}
	spec := li.spec
	if spec != nil && !fr.spec {
		// check the loop variable name
		okName := false
		for _, instr := range b.Instrs {
			if phi, ok := instr.(*ssa.Phi); ok && (phi.Comment == spec.Var || phi.Name() == spec.Var || strings.ReplaceAll(phi.Comment, ".", "_") == spec.Var) {
				okName = true
			}
		}
		if !okName && spec.Var != "_" {
			vc.eng.errorf("%s: loop %d has no variable %q (contract target changed)", vc.fnName(), li.ord, spec.Var)
		}
		binds := fr.loopBinds(li, func(p *ssa.Phi) Val { return entryVals[p] })
		for _, inv := range spec.Invariants {
			env := &SpecEnv{vc: vc, fn: fr.fn, binds: binds, cur: in, old: vc.entry}
			g := env.boolExpr(inv.Expr)
			o := vc.oblige(in, "loop"+fmt.Sprint(li.ord)+"-inv-entry", inv.label(), g, b.Instrs[0].Pos())
			if o != nil {
				o.Pos = inv.Pos
			}
		}
	}
	// havoc: loop-modified heap variables and header phis
	hs := in.clone()
	hs.reach = vc.define(fr.prefix+"loophead", "Bool", in.reach)
	mods, all := fr.loopEffects(li)
	if os.Getenv("GOVC_DEBUG") != "" {
		fmt.Fprintf(os.Stderr, "loop %d of %s: all=%v mods=%v\n", li.ord, fr.fn.Name(), all, sortedKeys(mods))
	}
	if all {
		vc.havocAll(hs, "loop")
	} else {
		old := hs.clone()
		for _, name := range sortedKeys(mods) {
			if name == "CLK" {
				continue
			}
			hs.heap[name] = vc.havocOne(old, name)
			if strings.HasPrefix(name, "Gh_") {
				// ghost counters only grow
				vc.assume("(>= " + hs.heap[name] + " " + old.heap[name] + ")")
			}
		}
		// written only at objects allocated inside the loop: everything that
		// existed when the loop was entered keeps its value
		for _, name := range sortedKeys(li.freshOnly) {
			if name == "CLK" || !strings.HasPrefix(vc.heapSort[name], "(Array Ref ") {
				if name != "CLK" {
					hs.heap[name] = vc.havocOne(old, name)
				}
				continue
			}
			nh := vc.havocOne(old, name)
			hs.heap[name] = nh
			vc.assumeAt(hs, fmt.Sprintf("(forall ((r Ref)) (! (=> (< (at r) %s) (= (select %s r) (select %s r))) :pattern ((select %s r))))", old.heap["CLK"], nh, old.heap[name], nh))
		}
		nclk := vc.freshConst("CLK", "Int")
		vc.assume("(>= " + nclk + " " + old.heap["CLK"] + ")")
		hs.heap["CLK"] = nclk
	}
	// the function's own ghost counters (`counts g callee`) may be bumped by
	// any iteration: at the head they are only known not to have decreased
	// (the loop invariants say the rest)
	if vc.con != nil && fr.top {
		done := map[string]bool{}
		for _, c := range vc.con.Counts {
			g := vc.ghostVar(c.Ghost)
			if done[g] {
				continue
			}
			// only a loop that contains a counted call site can bump the counter
			counted := false
			for blk := range li.body {
				for _, in2 := range blk.Instrs {
					if ci, ok := in2.(ssa.CallInstruction); ok {
						if _, isB := ci.Common().Value.(*ssa.Builtin); !isB && calleeMatch(calleeName(ci.Common()), c.Callee) {
							counted = true
						}
					}
				}
			}
			if !counted {
				continue
			}
			done[g] = true
			if _, ok := in.heap[g]; !ok {
				continue
			}
			if hs.heap[g] != in.heap[g] {
				continue // already given a new version above
			}
			nv := vc.freshConst(g, "Int")
			vc.assume("(>= " + nv + " " + in.heap[g] + ")")
			hs.heap[g] = nv
		}
	}
	for _, instr := range b.Instrs {
		phi, ok := instr.(*ssa.Phi)
		if !ok {
			break
		}
		n := vc.freshConst(fr.prefix+phi.Name()+"_h", vc.sortOf(phi.Type()))
		fr.vals[phi] = Val{T: n, Ty: phi.Type()}
		vc.introduce(hs, n, phi.Type())
	}
	// automatic frame invariant: in a function with a `modifies` clause, every
	// array-valued heap variable the loop havocs keeps its contents on objects
	// allocated before the function was entered, unless the clause names it
	if fr.top && !fr.spec && vc.con != nil && vc.con.ModSet && !all {
		named := map[string]bool{}
		for _, m := range vc.con.Modifies {
			vars, allM := vc.modVars(vc.con, vc.fn, m)
			if allM {
				named = nil
				break
			}
			for _, v := range vars {
				named[v] = true
			}
		}
		if named != nil {
			for _, name := range sortedKeys(mods) {
				if named[name] || name == "CLK" || !strings.HasPrefix(vc.heapSort[name], "(Array Ref ") {
					continue
				}
				cur, ent := hs.heap[name], vc.get(vc.entry, name)
				if cur == ent {
					continue
				}
				// established on entry to the loop ...
				if inCur := vc.get(in, name); inCur != ent {
					r := vc.freshConst("frame_r", "Ref")
					vc.oblige(in, fmt.Sprintf("loop%d-frame-entry", li.ord), "unchanged "+name, smtImp("(< (at "+r+") "+vc.entry.heap["CLK"]+")", fmt.Sprintf("(= (select %s %s) (select %s %s))", inCur, r, ent, r)), token.NoPos)
				}
				// ... and assumed at the head (proved preserved in closeLoop)
				vc.assumeAt(hs, fmt.Sprintf("(forall ((r Ref)) (! (=> (< (at r) %s) (= (select %s r) (select %s r))) :pattern ((select %s r))))", vc.entry.heap["CLK"], cur, ent, cur))
				li.frameVars = append(li.frameVars, name)
			}
		}
	}
	// automatic `keeps` invariant: flagged objects keep their fields across the loop
	if fr.top && !fr.spec && vc.con != nil && len(vc.con.Keeps) > 0 {
		vc.keepsOblige(vc.con, vc.entry, in, fmt.Sprintf("loop%d-keeps-entry", li.ord), token.NoPos)
		vc.keepsAssume(vc.con, vc.entry, hs)
		li.keeps = true
	}
	li.headSt = hs.clone()
	if spec != nil && !fr.spec {
		binds := fr.loopBinds(li, func(p *ssa.Phi) Val { return fr.vals[p] })
		li.binds = binds
		for _, inv := range spec.Invariants {
			env := &SpecEnv{vc: vc, fn: fr.fn, binds: binds, cur: hs, old: vc.entry}
			vc.assumeAt(hs, env.boolExpr(inv.Expr))
		}
		if spec.Decreases != nil {
			env := &SpecEnv{vc: vc, fn: fr.fn, binds: binds, cur: hs, old: vc.entry}
			li.decHead = vc.define("dec", "Int", env.eval(spec.Decreases.Expr).T)
		}
	}
	return hs
}

func (c Clause) label() string {
	if c.Tag != "" {
		return c.Tag
	}
	return c.Text
}

func (fr *Frame) closeLoop(li *loopInfo, es *State, from *ssa.BasicBlock) {
	vc := fr.vc
	if li == nil || fr.spec {
		return
	}
	// automatic frame invariant (see enterLoop)
	for _, name := range li.frameVars {
		cur, ent := vc.get(es, name), vc.get(vc.entry, name)
		if cur == ent {
			continue
		}
		r := vc.freshConst("frame_r", "Ref")
		vc.oblige(es, fmt.Sprintf("loop%d-frame-preserved", li.ord), "unchanged "+name, smtImp("(< (at "+r+") "+vc.entry.heap["CLK"]+")", fmt.Sprintf("(= (select %s %s) (select %s %s))", cur, r, ent, r)), token.NoPos)
	}
	if li.keeps {
		vc.keepsOblige(vc.con, vc.entry, es, fmt.Sprintf("loop%d-keeps-preserved", li.ord), token.NoPos)
	}
	if li.spec == nil {
		return
	}
	idx := predIndex(li.head, from)
	binds := fr.loopBinds(li, func(p *ssa.Phi) Val { return fr.val(p.Edges[idx]) })
	for _, inv := range li.spec.Invariants {
		env := &SpecEnv{vc: vc, fn: fr.fn, binds: binds, cur: es, old: vc.entry}
		g := env.boolExpr(inv.Expr)
		o := vc.oblige(es, "loop"+fmt.Sprint(li.ord)+"-inv-preserved", inv.label(), g, token.NoPos)
		if o != nil {
			o.Pos = inv.Pos
		}
	}
	if li.spec.Decreases != nil {
		env := &SpecEnv{vc: vc, fn: fr.fn, binds: binds, cur: es, old: vc.entry}
		d := env.eval(li.spec.Decreases.Expr).T
		o := vc.oblige(es, "loop"+fmt.Sprint(li.ord)+"-decreases", li.spec.Decreases.Text, "(and (>= "+li.decHead+" 0) (< "+d+" "+li.decHead+"))", token.NoPos)
		if o != nil {
			o.Pos = li.spec.Decreases.Pos
		}
	}
}

// loopEffects computes the heap variables written in the loop body.
func (fr *Frame) loopEffects(li *loopInfo) (map[string]bool, bool) {
	mods := map[string]bool{}
	all := false
	fr.vc.freshSink = map[string]bool{}
	for b := range li.body {
		for _, instr := range b.Instrs {
			if fr.vc.instrEffects(instr, mods, 0) {
				all = true
			}
		}
	}
	li.freshOnly = map[string]bool{}
	for v := range fr.vc.freshSink {
		if !mods[v] {
			li.freshOnly[v] = true
		}
	}
	fr.vc.freshSink = nil
	return mods, all
}

// instrEffects adds the heap variables instr may write; returns true for "everything".
func (vc *VC) instrEffects(instr ssa.Instruction, mods map[string]bool, depth int) bool {
	if vc.freshSink != nil {
		// loop analysis: writes that can only land in objects allocated inside
		// the loop are kept apart (they do not disturb what existed before it)
		switch x := instr.(type) {
		case *ssa.Alloc, *ssa.MakeSlice, *ssa.MakeMap:
			sink := vc.freshSink
			vc.freshSink = nil
			vc.instrEffects(instr, sink, depth)
			vc.freshSink = sink
			return false
		case *ssa.Store:
			if isAllocBased(x.Addr) || vc.eng.freshBase(x.Addr, 0) {
				sink := vc.freshSink
				vc.freshSink = nil
				all := vc.instrEffects(instr, sink, depth)
				vc.freshSink = sink
				return all
			}
		}
	}
	switch x := instr.(type) {
	case *ssa.Store:
		switch a := x.Addr.(type) {
		case *ssa.FieldAddr:
			st := a.X.Type().Underlying().(*types.Pointer).Elem()
			ft := st.Underlying().(*types.Struct).Field(a.Field).Type()
			switch ft.Underlying().(type) {
			case *types.Struct, *types.Array:
				for _, v := range vc.varsOfType(ft) {
					mods[v] = true
				}
			default:
				mods[vc.fieldVar(st, a.Field)] = true
			}
		case *ssa.Global:
			el := a.Type().(*types.Pointer).Elem()
			switch el.Underlying().(type) {
			case *types.Struct, *types.Array:
				for _, v := range vc.varsOfType(el) {
					mods[v] = true
				}
			default:
				mods[vc.globalVar(a)] = true
			}
		default:
			el := x.Addr.Type().Underlying().(*types.Pointer).Elem()
			for _, v := range vc.varsOfType(el) {
				mods[v] = true
			}
		}
	case *ssa.MapUpdate:
		a, b := vc.mapVars(x.Map.Type())
		mods[a], mods[b] = true, true
	case *ssa.Alloc:
		for _, v := range vc.varsOfType(x.Type().Underlying().(*types.Pointer).Elem()) {
			mods[v] = true
		}
	case *ssa.MakeSlice:
		// fresh array: contents zero -> element memory written at fresh refs only
		for _, v := range vc.varsOfType(x.Type().Underlying().(*types.Slice).Elem()) {
			mods[v] = true
		}
	case *ssa.MakeMap:
		a, b := vc.mapVars(x.Type())
		mods[a], mods[b] = true, true
	case *ssa.MakeClosure, *ssa.MakeInterface:
	case *ssa.Defer:
		return true
	case *ssa.Go:
		return true
	case ssa.CallInstruction:
		return vc.callEffects(x.Common(), mods, depth)
	}
	return false
}

func (vc *VC) callEffects(c *ssa.CallCommon, mods map[string]bool, depth int) bool {
	if b, ok := c.Value.(*ssa.Builtin); ok {
		switch b.Name() {
		case "append", "copy":
			if sl, ok := c.Args[0].Type().Underlying().(*types.Slice); ok {
				for _, v := range vc.varsOfType(sl.Elem()) {
					mods[v] = true
				}
			}
		case "delete":
			a, b := vc.mapVars(c.Args[0].Type())
			mods[a], mods[b] = true, true
		case "clear":
			return true
		}
		return false
	}
	callee := c.StaticCallee()
	if callee == nil {
		tc := vc.eng.typeContract(c)
		if tc != nil && tc.Pure {
			return false
		}
		if tc != nil && tc.ModSet {
			return vc.contractEffects(tc, nil, mods)
		}
		// interface methods whose implementations are all in the repository
		// (declared like-repo-implementations, or an unexported interface)
		if n, ok := types.Unalias(c.Value.Type()).(*types.Named); ok && c.IsInvoke() {
			private := !n.Obj().Exported() && n.Obj().Pkg() != nil && strings.HasPrefix(n.Obj().Pkg().Path(), repoPrefix)
			if (tc != nil && tc.RepoImpls) || private {
				if impls := vc.eng.implementations(n, c.Method); len(impls) > 0 {
					all := false
					for _, f := range impls {
						if vc.addInferred(f, mods) {
							all = true
						}
					}
					return all
				}
			}
		}
		return true
	}
	if k := externalKind(callee); k != "" {
		if k == "pure" {
			return false
		}
		if k == "elems" {
			for _, a := range c.Args {
				if sl, ok := a.Type().Underlying().(*types.Slice); ok {
					for _, v := range vc.varsOfType(sl.Elem()) {
						mods[v] = true
					}
				}
			}
			return false
		}
		return true
	}
	con := vc.eng.conOf[callee]
	if con != nil && !con.Inline {
		if con.Pure {
			return false
		}
		if !con.ModSet {
			return vc.addInferred(callee, mods)
		}
		return vc.contractEffects(con, callee, mods)
	}
	if depth >= 99 {
		// direct-effects mode (effects.go): callees are handled by the caller
		return false
	}
	if vc.eng.inlinable(callee, con) && depth < 4 {
		all := false
		for _, b := range callee.Blocks {
			for _, in := range b.Instrs {
				if vc.instrEffects(in, mods, depth+1) {
					all = true
				}
			}
		}
		return all
	}
	return vc.addInferred(callee, mods)
}

func (vc *VC) addInferred(callee *ssa.Function, mods map[string]bool) bool {
	if callee == nil || !isRepoFunc(callee) || len(callee.Blocks) == 0 {
		return true
	}
	es := vc.eng.inferredEffects(callee)
	if es.all {
		return true
	}
	for v := range es.vars {
		if _, inScope := vc.heapSort[v]; inScope {
			mods[v] = true
		}
	}
	for v := range es.fresh {
		if _, inScope := vc.heapSort[v]; inScope {
			if vc.freshSink != nil {
				vc.freshSink[v] = true
			} else {
				mods[v] = true
			}
		}
	}
	for _, ws := range es.pw {
		for v := range ws {
			if _, inScope := vc.heapSort[v]; inScope {
				mods[v] = true
			}
		}
	}
	mods["CLK"] = true
	return false
}

// contractEffects translates a modifies list into whole heap variables.
func (vc *VC) contractEffects(con *Contract, callee *ssa.Function, mods map[string]bool) bool {
	for _, m := range con.Modifies {
		vars, all := vc.modVars(con, callee, m)
		if all {
			return true
		}
		for _, v := range vars {
			mods[v] = true
		}
	}
	for g := range con.Ghosts {
		mods[vc.ghostVar(g)] = true
	}
	mods["CLK"] = true
	return false
}

// ---------------------------------------------------------------- values

func (fr *Frame) val(v ssa.Value) Val {
	vc := fr.vc
	switch x := v.(type) {
	case *ssa.Const:
		return vc.constVal(x)
	case *ssa.Global:
		el := x.Type().(*types.Pointer).Elem()
		switch el.Underlying().(type) {
		case *types.Struct, *types.Array:
			return Val{T: vc.staticRef("g:" + x.Pkg.Pkg.Path() + "." + x.Name()), Ty: x.Type()}
		}
		return Val{Place: &Place{Kind: "global", Var: vc.globalVar(x), Ty: el}, Ty: x.Type()}
	case *ssa.Function:
		return Val{T: vc.staticRef("f:" + x.String()), Ty: x.Type(), Fn: x}
	case *ssa.Builtin:
		return Val{T: "nil", Ty: x.Type()}
	}
	if r, ok := fr.vals[v]; ok {
		return r
	}
	// not yet defined (value from a skipped/unreachable path): unconstrained
	n := vc.freshConst(fr.prefix+v.Name()+"_undef", vc.sortOf(v.Type()))
	r := Val{T: n, Ty: v.Type()}
	if tup, ok := v.Type().(*types.Tuple); ok {
		for i := 0; i < tup.Len(); i++ {
			r.Tuple = append(r.Tuple, Val{T: vc.freshConst(fr.prefix+v.Name()+"_undef", vc.sortOf(tup.At(i).Type())), Ty: tup.At(i).Type()})
		}
	}
	fr.vals[v] = r
	return r
}

// staticRef gives globals and functions distinct, always-allocated references
// (negative object ids).
func (vc *VC) staticRef(key string) Term {
	id, ok := vc.statics[key]
	if !ok {
		id = len(vc.statics) + 1
		vc.statics[key] = id
	}
	return fmt.Sprintf("(obj (- %d))", id)
}

func (vc *VC) constVal(c *ssa.Const) Val {
	t := c.Type()
	if c.Value == nil {
		return Val{T: vc.zeroOf(t), Ty: t}
	}
	switch u := t.Underlying().(type) {
	case *types.Basic:
		switch {
		case u.Info()&types.IsBoolean != 0:
			if constant.BoolVal(c.Value) {
				return Val{T: "true", Ty: t}
			}
			return Val{T: "false", Ty: t}
		case u.Info()&types.IsInteger != 0:
			return Val{T: smtInt(constant.ToInt(c.Value).ExactString()), Ty: t}
		case u.Info()&types.IsFloat != 0:
			return Val{T: vc.floatLit(c.Value), Ty: t}
		case u.Info()&types.IsString != 0:
			return Val{T: vc.strConst(constant.StringVal(c.Value)), Ty: t}
		}
	}
	vc.unsupported("constant of type " + t.String())
	return Val{T: vc.freshConst("const", vc.sortOf(t)), Ty: t}
}

func (fr *Frame) setVal(v ssa.Value, t Term) {
	fr.vals[v] = Val{T: t, Ty: v.Type()}
}

// defineVal names the result of an instruction.
func (fr *Frame) defineVal(v ssa.Value, expr Term) {
	vc := fr.vc
	fr.vals[v] = Val{T: vc.define(fr.prefix+v.Name(), vc.sortOf(v.Type()), expr), Ty: v.Type()}
}

func (fr *Frame) havocVal(st *State, v ssa.Value) {
	vc := fr.vc
	if tup, ok := v.Type().(*types.Tuple); ok {
		var vs []Val
		for i := 0; i < tup.Len(); i++ {
			n := vc.freshConst(fr.prefix+v.Name(), vc.sortOf(tup.At(i).Type()))
			vc.introduce(st, n, tup.At(i).Type())
			vs = append(vs, Val{T: n, Ty: tup.At(i).Type()})
		}
		fr.vals[v] = Val{Tuple: vs, Ty: v.Type()}
		return
	}
	n := vc.freshConst(fr.prefix+v.Name(), vc.sortOf(v.Type()))
	vc.introduce(st, n, v.Type())
	fr.vals[v] = Val{T: n, Ty: v.Type()}
}

func (fr *Frame) oblige(st *State, kind, anchor string, goal Term, pos token.Pos) {
	if fr.spec {
		return
	}
	a := anchor
	if fr.depth > 0 {
		a = "[in " + shortFn(fr.fn) + "] " + anchor
		// name the call site in the function under verification by its source
		// text, so that the obligations of one call keep their names when code
		// elsewhere in the function changes (ordinals stay local to a line)
		if safetyKind(kind) && fr.site.IsValid() {
			if t := fr.vc.eng.sourceLine(fr.site); t != "" {
				if len(t) > 48 {
					t = t[:48]
				}
				a = "[at " + t + "] " + a
			}
		}
	}
	if kind != "panic" && kind != "frame" {
		fr.top0().panicIf(st, smtNot(goal), kind+" "+anchor)
	}
	fr.vc.oblige(st, kind, a, goal, pos)
}

// top0 returns the frame of the function under verification.
func (fr *Frame) top0() *Frame {
	if fr.vc.topFrame != nil {
		return fr.vc.topFrame
	}
	return fr
}

func (fr *Frame) srcText(pos token.Pos, fallback string) string {
	return fallback
}

// ---------------------------------------------------------------- instructions

func (fr *Frame) step(st *State, instr ssa.Instruction) bool {
	vc := fr.vc
	if p := instr.Pos(); p.IsValid() {
		fr.curPos = p
	}
	if fr.top {
		vc.curReach = st.reach
	}
	switch x := instr.(type) {
	case *ssa.DebugRef:
	case *ssa.Alloc:
		el := x.Type().Underlying().(*types.Pointer).Elem()
		r := vc.allocate(st, el, fr.prefix+x.Name())
		fr.setVal(x, r)
		if fr.nonEscaping(x) {
			st.locals = append(st.locals, localRef{r, el})
		}
	case *ssa.FieldAddr:
		base := fr.val(x.X)
		sty := x.X.Type().Underlying().(*types.Pointer).Elem()
		fr.oblige(st, "nil", fr.exprText(x.X)+" != nil", "(not (= "+base.T+" nil))", x.Pos())
		ft := sty.Underlying().(*types.Struct).Field(x.Field).Type()
		switch ft.Underlying().(type) {
		case *types.Struct, *types.Array:
			fr.vals[x] = Val{T: vc.subRef(base.T, sty, x.Field), Ty: x.Type()}
		default:
			fr.vals[x] = Val{Place: &Place{Kind: "field", Base: base.T, Var: vc.fieldVar(sty, x.Field), Ty: ft}, Ty: x.Type()}
		}
	case *ssa.Field:
		sv := fr.val(x.X)
		fr.defineVal(x, "("+vc.fieldSel(x.X.Type(), x.Field)+" "+sv.T+")")
	case *ssa.IndexAddr:
		fr.indexAddr(st, x)
	case *ssa.Index:
		fr.index(st, x)
	case *ssa.Lookup:
		fr.lookup(st, x)
	case *ssa.MapUpdate:
		m := fr.val(x.Map)
		fr.oblige(st, "nilmap", fr.exprText(x.Map)+" != nil", "(not (= "+m.T+" nil))", x.Pos())
		vv, hv := vc.mapVars(x.Map.Type())
		k, v := fr.val(x.Key).T, fr.val(x.Value).T
		cv, ch := vc.get(st, vv), vc.get(st, hv)
		vc.set(st, vv, fmt.Sprintf("(store %s %s (store (select %s %s) %s %s))", cv, m.T, cv, m.T, k, v))
		vc.set(st, hv, fmt.Sprintf("(store %s %s (store (select %s %s) %s true))", ch, m.T, ch, m.T, k))
	case *ssa.Slice:
		fr.slice(st, x)
	case *ssa.Store:
		fr.store(st, x)
	case *ssa.UnOp:
		fr.unop(st, x)
	case *ssa.BinOp:
		fr.binop(st, x)
	case *ssa.Convert:
		fr.convert(st, x)
	case *ssa.MultiConvert:
		fr.havocVal(st, x)
		vc.unsupported("MultiConvert")
	case *ssa.ChangeType:
		v := fr.val(x.X)
		v.Ty = x.Type()
		fr.vals[x] = v
	case *ssa.ChangeInterface:
		v := fr.val(x.X)
		v.Ty = x.Type()
		fr.vals[x] = v
	case *ssa.MakeInterface:
		fr.makeInterface(st, x)
	case *ssa.TypeAssert:
		fr.typeAssert(st, x)
	case *ssa.Extract:
		tv := fr.val(x.Tuple)
		if x.Index < len(tv.Tuple) {
			e := tv.Tuple[x.Index]
			e.Ty = x.Type()
			fr.vals[x] = e
		} else {
			fr.havocVal(st, x)
		}
	case *ssa.MakeSlice:
		fr.makeSlice(st, x)
	case *ssa.MakeMap:
		r := vc.allocate2(st, fr.prefix+x.Name())
		vv, hv := vc.mapVars(x.Type())
		m := x.Type().Underlying().(*types.Map)
		ks := vc.sortOf(m.Key())
		vc.set(st, vv, fmt.Sprintf("(store %s %s ((as const (Array %s %s)) %s))", vc.get(st, vv), r, ks, vc.sortOf(m.Elem()), vc.zeroOf(m.Elem())))
		vc.set(st, hv, fmt.Sprintf("(store %s %s ((as const (Array %s Bool)) false))", vc.get(st, hv), r, ks))
		fr.setVal(x, r)
	case *ssa.MakeChan:
		fr.setVal(x, vc.allocate2(st, fr.prefix+x.Name()))
	case *ssa.MakeClosure:
		r := vc.allocate2(st, fr.prefix+x.Name())
		var binds []Val
		for _, b := range x.Bindings {
			binds = append(binds, fr.val(b))
		}
		fr.vals[x] = Val{T: r, Ty: x.Type(), Fn: x.Fn.(*ssa.Function), Bind: binds}
	case *ssa.Range:
		fr.vals[x] = Val{T: fr.val(x.X).T, Ty: x.Type()}
	case *ssa.Next:
		fr.next(st, x)
	case *ssa.Call:
		return fr.call(st, x, x.Common(), x)
	case *ssa.Defer:
		if fr.inLoopBlock(x.Block()) {
			vc.unsupported("defer inside a loop")
		}
		var args []Val
		for _, a := range x.Call.Args {
			args = append(args, fr.val(a))
		}
		var fnv Val
		if !x.Call.IsInvoke() {
			fnv = fr.val(x.Call.Value)
		} else {
			fnv = fr.val(x.Call.Value)
		}
		found := false
		for _, d := range fr.defers {
			if d.instr == x {
				d.args, d.fnv, d.seen = args, fnv, true
				st.heap[d.flag] = "true"
				found = true
			}
		}
		if !found {
			vc.unsupported("defer in inlined function")
		}
	case *ssa.RunDefers:
		fr.runDefers(st, false)
	case *ssa.Go:
		vc.unsupported("go statement")
	case *ssa.Select:
		// a blocking select waits for one of its cases: nondeterministic index in range
		vc.note("select is modelled as a nondeterministic wait that picks one of its cases")
		fr.havocVal(st, x)
		if tv := fr.vals[x]; len(tv.Tuple) > 0 && x.Blocking {
			vc.assume(fmt.Sprintf("(and (<= 0 %s) (< %s %d))", tv.Tuple[0].T, tv.Tuple[0].T, len(x.States)))
		}
	case *ssa.Send:
		vc.unsupported("channel send")
		vc.havocAll(st, "channel")
	case *ssa.SliceToArrayPointer:
		vc.unsupported("SliceToArrayPointer")
		fr.havocVal(st, x)
	case *ssa.Return:
		var vs []Val
		for _, r := range x.Results {
			vs = append(vs, fr.val(r))
		}
		if fr.top {
			// `assert-at return` clauses see the values returned on this path
			fr.assertAt(st, "return", vs, x.Pos())
		}
		fr.rets = append(fr.rets, retRec{st: st, vals: vs})
		return false
	case *ssa.Panic:
		fr.panicAt(st, x)
		return false
	case *ssa.If, *ssa.Jump:
	default:
		vc.unsupported(fmt.Sprintf("instruction %T", instr))
		if v, ok := instr.(ssa.Value); ok {
			fr.havocVal(st, v)
		}
	}
	return true
}

func (fr *Frame) inLoopBlock(b *ssa.BasicBlock) bool {
	for _, li := range fr.loops {
		if li.body[b] {
			return true
		}
	}
	return false
}

// allocate2: fresh reference without typed zero-init (maps, closures, channels).
func (vc *VC) allocate2(st *State, base string) Term {
	return vc.newObj(st, base)
}

func (fr *Frame) nonEscaping(a *ssa.Alloc) bool {
	refs := a.Referrers()
	if refs == nil {
		return false
	}
	var ok func(v ssa.Value, rs []ssa.Instruction) bool
	ok = func(v ssa.Value, rs []ssa.Instruction) bool {
		for _, r := range rs {
			switch y := r.(type) {
			case *ssa.FieldAddr:
				if y.X != v {
					return false
				}
				if y.Referrers() != nil && !ok(y, *y.Referrers()) {
					return false
				}
			case *ssa.IndexAddr:
				if y.X != v {
					return false
				}
				if y.Referrers() != nil && !ok(y, *y.Referrers()) {
					return false
				}
			case *ssa.UnOp:
				if y.Op != token.MUL {
					return false
				}
			case *ssa.Store:
				if y.Addr != v {
					return false
				}
			case *ssa.DebugRef:
			case *ssa.MakeClosure:
				// captured by a closure that is only deferred / called here and
				// only loads and stores the captured variable
				if !closureKeepsLocal(y, v) {
					return false
				}
			default:
				return false
			}
		}
		return true
	}
	return ok(a, *refs)
}

func (fr *Frame) exprText(v ssa.Value) string {
	switch x := v.(type) {
	case *ssa.Parameter:
		return x.Name()
	case *ssa.FreeVar:
		return x.Name()
	case *ssa.Const:
		return x.Value.String()
	case *ssa.FieldAddr:
		return fr.exprText(x.X) + "." + x.X.Type().Underlying().(*types.Pointer).Elem().Underlying().(*types.Struct).Field(x.Field).Name()
	case *ssa.Field:
		return fr.exprText(x.X) + "." + x.X.Type().Underlying().(*types.Struct).Field(x.Field).Name()
	case *ssa.UnOp:
		if x.Op == token.MUL {
			if _, ok := x.X.(*ssa.FieldAddr); ok {
				return fr.exprText(x.X)
			}
			if _, ok := x.X.(*ssa.IndexAddr); ok {
				return fr.exprText(x.X)
			}
			return "*" + fr.exprText(x.X)
		}
		return x.Op.String() + fr.exprText(x.X)
	case *ssa.IndexAddr:
		return fr.exprText(x.X) + "[" + fr.exprText(x.Index) + "]"
	case *ssa.Index:
		return fr.exprText(x.X) + "[" + fr.exprText(x.Index) + "]"
	case *ssa.Phi:
		if x.Comment != "" {
			return x.Comment
		}
	case *ssa.BinOp:
		return "(" + fr.exprText(x.X) + " " + x.Op.String() + " " + fr.exprText(x.Y) + ")"
	case *ssa.Call:
		c := x.Common()
		if c.IsInvoke() {
			return fr.exprText(c.Value) + "." + c.Method.Name() + "()"
		}
		if b, ok := c.Value.(*ssa.Builtin); ok {
			var as []string
			for _, a := range c.Args {
				as = append(as, fr.exprText(a))
			}
			return b.Name() + "(" + strings.Join(as, ", ") + ")"
		}
		if f := c.StaticCallee(); f != nil {
			if f.Signature.Recv() != nil && len(c.Args) > 0 {
				return fr.exprText(c.Args[0]) + "." + f.Name() + "()"
			}
			return f.Name() + "()"
		}
	case *ssa.Global:
		return x.Name()
	case *ssa.Extract:
		return fr.exprText(x.Tuple) + fmt.Sprintf("#%d", x.Index)
	case *ssa.Slice:
		return fr.exprText(x.X) + "[:]"
	case *ssa.Alloc:
		if x.Comment != "" {
			return x.Comment
		}
	case *ssa.Convert:
		return fr.exprText(x.X)
	case *ssa.ChangeType:
		return fr.exprText(x.X)
	case *ssa.TypeAssert:
		return fr.exprText(x.X) + ".(" + types.TypeString(x.AssertedType, func(p *types.Package) string { return "" }) + ")"
	}
	return v.Name()
}

func (fr *Frame) indexAddr(st *State, x *ssa.IndexAddr) {
	vc := fr.vc
	base := fr.val(x.X)
	idx := fr.val(x.Index).T
	switch u := x.X.Type().Underlying().(type) {
	case *types.Slice:
		fr.oblige(st, "index", fr.exprText(x), fmt.Sprintf("(and (<= 0 %s) (< %s (s.len %s)))", idx, idx, base.T), x.Pos())
		ref := vc.elemRef("(s.arr "+base.T+")", "(+ (s.off "+base.T+") "+idx+")")
		fr.vals[x] = Val{T: vc.define(fr.prefix+x.Name(), "Ref", ref), Ty: x.Type()}
		_ = u
	case *types.Pointer:
		arr := u.Elem().Underlying().(*types.Array)
		_, isAlloc := x.X.(*ssa.Alloc)
		if !isAlloc {
			fr.oblige(st, "nil", fr.exprText(x.X)+" != nil", "(not (= "+base.T+" nil))", x.Pos())
		}
		if c, ok := x.Index.(*ssa.Const); ok && c.Value != nil && isAlloc {
			if n, ok := constant.Int64Val(constant.ToInt(c.Value)); ok && n >= 0 && n < arr.Len() {
				fr.vals[x] = Val{T: vc.elemRef(base.T, idx), Ty: x.Type()}
				return
			}
		}
		fr.oblige(st, "index", fr.exprText(x), fmt.Sprintf("(and (<= 0 %s) (< %s %d))", idx, idx, arr.Len()), x.Pos())
		fr.vals[x] = Val{T: vc.elemRef(base.T, idx), Ty: x.Type()}
	default:
		vc.unsupported("IndexAddr on " + x.X.Type().String())
		fr.havocVal(st, x)
	}
}

func (fr *Frame) byteAt(s, i Term) Term {
	if fr.vc.smtStr {
		return "(str.to_code (str.at " + s + " " + i + "))"
	}
	return "(sat " + s + " " + i + ")"
}

func (fr *Frame) index(st *State, x *ssa.Index) {
	vc := fr.vc
	base := fr.val(x.X)
	idx := fr.val(x.Index).T
	switch u := x.X.Type().Underlying().(type) {
	case *types.Basic: // string
		fr.oblige(st, "index", fr.exprText(x), fmt.Sprintf("(and (<= 0 %s) (< %s %s))", idx, idx, vc.slenOf(base.T)), x.Pos())
		fr.defineVal(x, fr.byteAt(base.T, idx))
		vc.assume(vc.typeInv(fr.vals[x].T, x.Type()))
	case *types.Array:
		fr.oblige(st, "index", fr.exprText(x), fmt.Sprintf("(and (<= 0 %s) (< %s %d))", idx, idx, u.Len()), x.Pos())
		fr.defineVal(x, "(select "+base.T+" "+idx+")")
	default:
		vc.unsupported("Index on " + x.X.Type().String())
		fr.havocVal(st, x)
	}
}

func (fr *Frame) lookup(st *State, x *ssa.Lookup) {
	vc := fr.vc
	base := fr.val(x.X)
	k := fr.val(x.Index).T
	if _, isMap := x.X.Type().Underlying().(*types.Map); isMap {
		vv, hv := vc.mapVars(x.X.Type())
		el := x.X.Type().Underlying().(*types.Map).Elem()
		has := vc.define(fr.prefix+x.Name()+"_ok", "Bool", fmt.Sprintf("(and (not (= %s nil)) (select (select %s %s) %s))", base.T, vc.get(st, hv), base.T, k))
		v := vc.define(fr.prefix+x.Name(), vc.sortOf(el), smtIte(has, fmt.Sprintf("(select (select %s %s) %s)", vc.get(st, vv), base.T, k), vc.zeroOf(el)))
		vc.introduce(st, v, el)
		if x.CommaOk {
			fr.vals[x] = Val{Tuple: []Val{{T: v, Ty: el}, {T: has, Ty: types.Typ[types.Bool]}}, Ty: x.Type()}
		} else {
			fr.vals[x] = Val{T: v, Ty: x.Type()}
		}
		return
	}
	// string index
	fr.oblige(st, "index", fr.exprText(x.X)+"["+fr.exprText(x.Index)+"]", fmt.Sprintf("(and (<= 0 %s) (< %s %s))", k, k, vc.slenOf(base.T)), x.Pos())
	fr.defineVal(x, fr.byteAt(base.T, k))
	vc.assume(vc.typeInv(fr.vals[x].T, x.Type()))
}

func (fr *Frame) slice(st *State, x *ssa.Slice) {
	vc := fr.vc
	base := fr.val(x.X)
	opt := func(v ssa.Value, def Term) Term {
		if v == nil {
			return def
		}
		return fr.val(v).T
	}
	switch u := x.X.Type().Underlying().(type) {
	case *types.Slice:
		lo := opt(x.Low, "0")
		hi := opt(x.High, "(s.len "+base.T+")")
		mx := opt(x.Max, "(s.cap "+base.T+")")
		fr.oblige(st, "slice", fr.sliceText(x), fmt.Sprintf("(and (<= 0 %s) (<= %s %s) (<= %s %s) (<= %s (s.cap %s)))", lo, lo, hi, hi, mx, mx, base.T), x.Pos())
		// Go: slicing a nil slice yields nil; arr unchanged
		fr.defineVal(x, fmt.Sprintf("(mk-slice (s.arr %s) (+ (s.off %s) %s) (- %s %s) (- %s %s))", base.T, base.T, lo, hi, lo, mx, lo))
	case *types.Basic: // string
		lo := opt(x.Low, "0")
		hi := opt(x.High, vc.slenOf(base.T))
		fr.oblige(st, "slice", fr.sliceText(x), fmt.Sprintf("(and (<= 0 %s) (<= %s %s) (<= %s %s))", lo, lo, hi, hi, vc.slenOf(base.T)), x.Pos())
		if vc.smtStr {
			fr.defineVal(x, fmt.Sprintf("(str.substr %s %s (- %s %s))", base.T, lo, hi, lo))
		} else {
			vc.decl("fun:ssub", "(declare-fun ssub (Str Int Int) Str)")
			fr.defineVal(x, fmt.Sprintf("(ssub %s %s %s)", base.T, lo, hi))
			r := fr.vals[x].T
			vc.assume(fmt.Sprintf("(= (slen %s) (- %s %s))", r, hi, lo))
			// whole-string slice is the identity
			vc.assume(fmt.Sprintf("(=> (and (= %s 0) (= %s (slen %s))) (= %s %s))", lo, hi, base.T, r, base.T))
		}
	case *types.Pointer:
		arr := u.Elem().Underlying().(*types.Array)
		n := fmt.Sprint(arr.Len())
		lo := opt(x.Low, "0")
		hi := opt(x.High, n)
		mx := opt(x.Max, n)
		if _, isAlloc := x.X.(*ssa.Alloc); !isAlloc || x.Low != nil || x.High != nil || x.Max != nil {
			fr.oblige(st, "nil", fr.exprText(x.X)+" != nil", "(not (= "+base.T+" nil))", x.Pos())
			fr.oblige(st, "slice", fr.sliceText(x), fmt.Sprintf("(and (<= 0 %s) (<= %s %s) (<= %s %s) (<= %s %s))", lo, lo, hi, hi, mx, mx, n), x.Pos())
		}
		fr.defineVal(x, fmt.Sprintf("(mk-slice %s %s (- %s %s) (- %s %s))", base.T, lo, hi, lo, mx, lo))
	default:
		vc.unsupported("Slice on " + x.X.Type().String())
		fr.havocVal(st, x)
	}
}

func (fr *Frame) sliceText(x *ssa.Slice) string {
	t := func(v ssa.Value) string {
		if v == nil {
			return ""
		}
		return fr.exprText(v)
	}
	s := fr.exprText(x.X) + "[" + t(x.Low) + ":" + t(x.High)
	if x.Max != nil {
		s += ":" + t(x.Max)
	}
	return s + "]"
}

func (fr *Frame) store(st *State, x *ssa.Store) {
	vc := fr.vc
	addr := fr.val(x.Addr)
	v := fr.val(x.Val)
	if fr.spec {
		// spec functions may only write their own locals
		if _, isAlloc := x.Addr.(*ssa.Alloc); !isAlloc {
			if fa, ok := x.Addr.(*ssa.FieldAddr); !ok || !isAllocBased(fa.X) {
				vc.eng.errorf("spec function %s writes memory", fr.fn.String())
			}
		}
	}
	if addr.Place != nil {
		p := addr.Place
		if p.Kind == "global" {
			vc.set(st, p.Var, v.T)
		} else {
			vc.set(st, p.Var, "(store "+vc.get(st, p.Var)+" "+p.Base+" "+v.T+")")
		}
		return
	}
	el := x.Addr.Type().Underlying().(*types.Pointer).Elem()
	if _, isAlloc := x.Addr.(*ssa.Alloc); !isAlloc {
		if _, isIA := x.Addr.(*ssa.IndexAddr); !isIA {
			fr.oblige(st, "nil", fr.exprText(x.Addr)+" != nil", "(not (= "+addr.T+" nil))", x.Pos())
		}
	}
	vc.storeAt(st, addr.T, el, v.T)
}

func isAllocBased(v ssa.Value) bool {
	switch x := v.(type) {
	case *ssa.Alloc:
		return true
	case *ssa.FieldAddr:
		return isAllocBased(x.X)
	case *ssa.IndexAddr:
		return isAllocBased(x.X)
	}
	return false
}

func (fr *Frame) unop(st *State, x *ssa.UnOp) {
	vc := fr.vc
	v := fr.val(x.X)
	switch x.Op {
	case token.MUL: // load
		el := x.Type()
		if v.Place != nil {
			p := v.Place
			var t Term
			if p.Kind == "global" {
				t = vc.get(st, p.Var)
			} else {
				t = "(select " + vc.get(st, p.Var) + " " + p.Base + ")"
			}
			fr.defineVal(x, t)
			vc.introduceFrom(st, fr.vals[x].T, el, p.Var)
			vc.rangeFact(p.Var, fr.vals[x].T)
			return
		}
		if _, isAlloc := x.X.(*ssa.Alloc); !isAlloc {
			if _, isIA := x.X.(*ssa.IndexAddr); !isIA {
				fr.oblige(st, "nil", fr.exprText(x.X)+" != nil", "(not (= "+v.T+" nil))", x.Pos())
			}
		}
		fr.defineVal(x, vc.loadAt(st, v.T, el))
		switch el.Underlying().(type) {
		case *types.Struct, *types.Array:
			vc.introduce(st, fr.vals[x].T, el)
		default:
			vc.introduceFrom(st, fr.vals[x].T, el, vc.memVar(el))
		}
	case token.NOT:
		fr.defineVal(x, smtNot(v.T))
	case token.SUB:
		if isFloat(x.Type()) {
			vc.decl("fun:f64_neg", "(declare-fun f64_neg (F64) F64)")
			fr.defineVal(x, "(f64_neg "+v.T+")")
			return
		}
		fr.defineVal(x, vc.wrap("(- "+v.T+")", x.Type()))
	case token.XOR:
		fr.defineVal(x, vc.wrap("(- (- "+v.T+") 1)", x.Type()))
	case token.ARROW:
		vc.unsupported("channel receive")
		fr.havocVal(st, x)
	default:
		vc.unsupported("unop " + x.Op.String())
		fr.havocVal(st, x)
	}
}

func isFloat(t types.Type) bool {
	b, ok := t.Underlying().(*types.Basic)
	return ok && b.Info()&types.IsFloat != 0
}
func isString(t types.Type) bool {
	b, ok := t.Underlying().(*types.Basic)
	return ok && b.Info()&types.IsString != 0
}
func isInteger(t types.Type) bool {
	b, ok := t.Underlying().(*types.Basic)
	return ok && b.Info()&types.IsInteger != 0
}

// wrap reduces a mathematical integer to the Go type's range (two's complement).
func (vc *VC) wrap(t Term, ty types.Type) Term {
	b, ok := ty.Underlying().(*types.Basic)
	if !ok {
		return t
	}
	switch b.Kind() {
	case types.Int, types.Int64:
		return "(wraps " + t + " 9223372036854775808)"
	case types.Int32:
		return "(wraps " + t + " 2147483648)"
	case types.Int16:
		return "(wraps " + t + " 32768)"
	case types.Int8:
		return "(wraps " + t + " 128)"
	case types.Uint, types.Uint64, types.Uintptr:
		return "(wrapu " + t + " 18446744073709551616)"
	case types.Uint32:
		return "(wrapu " + t + " 4294967296)"
	case types.Uint16:
		return "(wrapu " + t + " 65536)"
	case types.Uint8:
		return "(wrapu " + t + " 256)"
	}
	return t
}

func is64s(ty types.Type) bool {
	b, ok := ty.Underlying().(*types.Basic)
	return ok && (b.Kind() == types.Int || b.Kind() == types.Int64)
}

func (fr *Frame) binop(st *State, x *ssa.BinOp) {
	vc := fr.vc
	a, b := fr.val(x.X), fr.val(x.Y)
	ty := x.X.Type()
	if x.Op == token.SHL || x.Op == token.SHR {
		ty = x.X.Type()
	}
	switch {
	case isFloat(ty):
		op := map[token.Token]string{token.ADD: "f64_add", token.SUB: "f64_sub", token.MUL: "f64_mul", token.QUO: "f64_div",
			token.EQL: "f64_eq", token.NEQ: "f64_eq", token.LSS: "f64_lt", token.LEQ: "f64_le", token.GTR: "f64_lt", token.GEQ: "f64_le"}[x.Op]
		if op == "" {
			vc.unsupported("float op " + x.Op.String())
			fr.havocVal(st, x)
			return
		}
		switch x.Op {
		case token.ADD, token.SUB, token.MUL, token.QUO:
			vc.decl("fun:"+op, "(declare-fun "+op+" (F64 F64) F64)")
			fr.defineVal(x, "("+op+" "+a.T+" "+b.T+")")
		default:
			vc.decl("fun:"+op, "(declare-fun "+op+" (F64 F64) Bool)")
			vc.f64pair(a.T, b.T)
			var t Term
			switch x.Op {
			case token.EQL, token.LSS, token.LEQ:
				t = "(" + op + " " + a.T + " " + b.T + ")"
			case token.NEQ:
				t = "(not (" + op + " " + a.T + " " + b.T + "))"
			case token.GTR, token.GEQ:
				t = "(" + op + " " + b.T + " " + a.T + ")"
			}
			fr.defineVal(x, t)
		}
		return
	case isString(ty):
		switch x.Op {
		case token.EQL:
			fr.defineVal(x, smtEq(a.T, b.T))
		case token.NEQ:
			fr.defineVal(x, smtNot(smtEq(a.T, b.T)))
		case token.ADD:
			if vc.smtStr {
				fr.defineVal(x, "(str.++ "+a.T+" "+b.T+")")
			} else {
				vc.decl("fun:sconcat", "(declare-fun sconcat (Str Str) Str)")
				fr.defineVal(x, "(sconcat "+a.T+" "+b.T+")")
				vc.assume(fmt.Sprintf("(= (slen %s) (+ (slen %s) (slen %s)))", fr.vals[x].T, a.T, b.T))
			}
		case token.LSS, token.LEQ, token.GTR, token.GEQ:
			if vc.smtStr {
				op := map[token.Token]string{token.LSS: "str.<", token.LEQ: "str.<=", token.GTR: "str.<", token.GEQ: "str.<="}[x.Op]
				if x.Op == token.GTR || x.Op == token.GEQ {
					a, b = b, a
				}
				fr.defineVal(x, "("+op+" "+a.T+" "+b.T+")")
			} else {
				vc.decl("fun:str_lt", "(declare-fun str_lt (Str Str) Bool)")
				var t Term
				switch x.Op {
				case token.LSS:
					t = "(str_lt " + a.T + " " + b.T + ")"
				case token.GTR:
					t = "(str_lt " + b.T + " " + a.T + ")"
				case token.LEQ:
					t = "(not (str_lt " + b.T + " " + a.T + "))"
				case token.GEQ:
					t = "(not (str_lt " + a.T + " " + b.T + "))"
				}
				fr.defineVal(x, t)
			}
		default:
			vc.unsupported("string op " + x.Op.String())
			fr.havocVal(st, x)
		}
		return
	case isInteger(ty):
		rt := x.Type()
		switch x.Op {
		case token.ADD:
			if is64s(rt) {
				fr.defineVal(x, "(add64 "+a.T+" "+b.T+")")
			} else {
				fr.defineVal(x, vc.wrap("(+ "+a.T+" "+b.T+")", rt))
			}
		case token.SUB:
			if is64s(rt) {
				fr.defineVal(x, "(sub64 "+a.T+" "+b.T+")")
			} else {
				fr.defineVal(x, vc.wrap("(- "+a.T+" "+b.T+")", rt))
			}
		case token.MUL:
			fr.defineVal(x, vc.wrap("(* "+a.T+" "+b.T+")", rt))
		case token.QUO:
			fr.oblige(st, "divzero", fr.exprText(x.Y)+" != 0", "(not (= "+b.T+" 0))", x.Pos())
			fr.defineVal(x, vc.wrap("(tdiv "+a.T+" "+b.T+")", rt))
		case token.REM:
			fr.oblige(st, "divzero", fr.exprText(x.Y)+" != 0", "(not (= "+b.T+" 0))", x.Pos())
			fr.defineVal(x, "(trem "+a.T+" "+b.T+")")
		case token.EQL:
			fr.defineVal(x, smtEq(a.T, b.T))
		case token.NEQ:
			fr.defineVal(x, smtNot(smtEq(a.T, b.T)))
		case token.LSS:
			fr.defineVal(x, "(< "+a.T+" "+b.T+")")
		case token.LEQ:
			fr.defineVal(x, "(<= "+a.T+" "+b.T+")")
		case token.GTR:
			fr.defineVal(x, "(> "+a.T+" "+b.T+")")
		case token.GEQ:
			fr.defineVal(x, "(>= "+a.T+" "+b.T+")")
		case token.SHL:
			if c, ok := x.Y.(*ssa.Const); ok && c.Value != nil {
				if n, ok := constant.Int64Val(constant.ToInt(c.Value)); ok && n >= 0 && n < 64 {
					fr.defineVal(x, vc.wrap(fmt.Sprintf("(* %s %s)", a.T, pow2(n)), rt))
					return
				}
			}
			fr.bitUF(st, x, "shl", a.T, b.T)
		case token.SHR:
			if c, ok := x.Y.(*ssa.Const); ok && c.Value != nil {
				if n, ok := constant.Int64Val(constant.ToInt(c.Value)); ok && n >= 0 && n < 64 {
					fr.defineVal(x, fmt.Sprintf("(div %s %s)", a.T, pow2(n)))
					return
				}
			}
			fr.bitUF(st, x, "shr", a.T, b.T)
		case token.AND:
			// x & (2^k - 1) on a non-negative operand is mod 2^k
			if c, ok := x.Y.(*ssa.Const); ok && c.Value != nil {
				if n, ok := constant.Int64Val(constant.ToInt(c.Value)); ok && n > 0 && (n&(n+1)) == 0 {
					fr.defineVal(x, fmt.Sprintf("(mod %s %d)", a.T, n+1))
					return
				}
			}
			fr.bitUF(st, x, "band", a.T, b.T)
		case token.OR:
			fr.bitUF(st, x, "bor", a.T, b.T)
		case token.XOR:
			fr.bitUF(st, x, "bxor", a.T, b.T)
		case token.AND_NOT:
			fr.bitUF(st, x, "bandnot", a.T, b.T)
		default:
			vc.unsupported("int op " + x.Op.String())
			fr.havocVal(st, x)
		}
		return
	}
	// bool, pointers, interfaces, structs ...: only == and !=
	switch x.Op {
	case token.EQL:
		fr.defineVal(x, smtEq(a.T, b.T))
	case token.NEQ:
		fr.defineVal(x, smtNot(smtEq(a.T, b.T)))
	default:
		vc.unsupported("op " + x.Op.String() + " on " + ty.String())
		fr.havocVal(st, x)
	}
}

func pow2(n int64) string {
	r := "1"
	// decimal doubling
	for i := int64(0); i < n; i++ {
		carry := 0
		bs := []byte(r)
		for j := len(bs) - 1; j >= 0; j-- {
			d := int(bs[j]-'0')*2 + carry
			bs[j] = byte('0' + d%10)
			carry = d / 10
		}
		r = string(bs)
		if carry > 0 {
			r = "1" + r
		}
	}
	return r
}

func (fr *Frame) bitUF(st *State, x *ssa.BinOp, name string, a, b Term) {
	vc := fr.vc
	vc.decl("fun:"+name, "(declare-fun "+name+" (Int Int) Int)")
	fr.defineVal(x, "("+name+" "+a+" "+b+")")
	vc.assume(vc.typeInv(fr.vals[x].T, x.Type()))
	vc.note("bitwise operator " + name + " is uninterpreted")
}

func (fr *Frame) convert(st *State, x *ssa.Convert) {
	vc := fr.vc
	v := fr.val(x.X)
	from, to := x.X.Type(), x.Type()
	switch {
	case isInteger(from) && isInteger(to):
		fb := from.Underlying().(*types.Basic)
		tb := to.Underlying().(*types.Basic)
		if widens(fb, tb) {
			fr.vals[x] = Val{T: v.T, Ty: to}
		} else {
			fr.defineVal(x, vc.wrap(v.T, to))
		}
	case isInteger(from) && isFloat(to):
		vc.declI2F()
		fr.defineVal(x, "(i2f "+v.T+")")
	case isFloat(from) && isInteger(to):
		vc.decl("fun:f2i", "(declare-fun f2i (F64) Int)")
		fr.defineVal(x, vc.wrap("(f2i "+v.T+")", to))
	case isFloat(from) && isFloat(to):
		fr.vals[x] = Val{T: v.T, Ty: to}
	case isString(from) && isString(to):
		fr.vals[x] = Val{T: v.T, Ty: to}
	case isString(to) && isInteger(from) && isConstRune(x.X):
		c := x.X.(*ssa.Const)
		n, _ := constant.Int64Val(constant.ToInt(c.Value))
		fr.vals[x] = Val{T: vc.strConst(string(rune(n))), Ty: to}
	case isString(to) && isInteger(from):
		vc.decl("fun:rune2str", "(declare-fun rune2str (Int) "+vc.strSort()+")")
		fr.defineVal(x, "(rune2str "+v.T+")")
	case isString(to):
		// []byte / []rune -> string: content copy
		if sl, ok := from.Underlying().(*types.Slice); ok && isByte(sl.Elem()) {
			n := vc.freshConst(fr.prefix+x.Name(), vc.strSort())
			vc.assume(smtEq(vc.slenOf(n), "(s.len "+v.T+")"))
			fr.vals[x] = Val{T: n, Ty: to}
			vc.note("string([]byte) conversion: contents abstracted (length kept)")
			return
		}
		fr.havocVal(st, x)
	case isString(from):
		// string -> []byte / []rune: fresh array
		if sl, ok := to.Underlying().(*types.Slice); ok && isByte(sl.Elem()) {
			arr := vc.allocate2(st, fr.prefix+x.Name()+"_arr")
			fr.defineVal(x, fmt.Sprintf("(mk-slice %s 0 %s %s)", arr, vc.slenOf(v.T), vc.slenOf(v.T)))
			hv := vc.memVar(sl.Elem())
			cur := vc.get(st, hv)
			nh := vc.freshConst(hv, vc.heapSort[hv])
			// only the new array's elements differ from the previous contents
			vc.assumeAt(st, fmt.Sprintf("(forall ((r Ref)) (! (=> (not (and ((_ is elem) r) (= (e.arr r) %s))) (= (select %s r) (select %s r))) :pattern ((select %s r))))", arr, nh, cur, nh))
			vc.set(st, hv, nh)
			vc.note("[]byte(string) conversion: contents abstracted (length kept)")
			return
		}
		fr.havocVal(st, x)
	default:
		// pointer <-> unsafe.Pointer etc.
		if vc.sortOf(from) == vc.sortOf(to) {
			fr.vals[x] = Val{T: v.T, Ty: to}
			return
		}
		vc.unsupported("conversion " + from.String() + " -> " + to.String())
		fr.havocVal(st, x)
	}
}

func isByte(t types.Type) bool {
	b, ok := t.Underlying().(*types.Basic)
	return ok && b.Kind() == types.Uint8
}

func widens(from, to *types.Basic) bool {
	rank := func(b *types.Basic) (bits int, signed bool) {
		switch b.Kind() {
		case types.Int8:
			return 8, true
		case types.Int16:
			return 16, true
		case types.Int32:
			return 32, true
		case types.Int, types.Int64:
			return 64, true
		case types.Uint8:
			return 8, false
		case types.Uint16:
			return 16, false
		case types.Uint32:
			return 32, false
		case types.Uint, types.Uint64, types.Uintptr:
			return 64, false
		}
		return 64, true
	}
	fb, fs := rank(from)
	tb, ts := rank(to)
	if fs == ts {
		return tb >= fb
	}
	if !fs && ts {
		return tb > fb
	}
	return false
}

func (fr *Frame) makeInterface(st *State, x *ssa.MakeInterface) {
	vc := fr.vc
	v := fr.val(x.X)
	t := x.X.Type()
	tag := vc.typeID(t)
	var payload Term
	switch t.Underlying().(type) {
	case *types.Pointer, *types.Map, *types.Chan, *types.Signature:
		payload = v.T
	default:
		payload = vc.box(t, v.T)
	}
	r := Val{T: vc.define(fr.prefix+x.Name(), "Iface", "(mk-iface "+tag+" "+payload+")"), Ty: x.Type()}
	r.Fn = v.Fn
	r.Bind = v.Bind
	fr.vals[x] = r
}

func (vc *VC) box(t types.Type, v Term) Term {
	key := sanitize(types.TypeString(t, func(p *types.Package) string { return p.Name() }))
	s := vc.sortOf(t)
	vc.decl("fun:box_"+key, fmt.Sprintf("(declare-fun box_%s (%s) Ref)", key, s))
	vc.decl("fun:unbox_"+key, fmt.Sprintf("(declare-fun unbox_%s (Ref) %s)", key, s))
	b := "(box_" + key + " " + v + ")"
	k := "boxfact:" + b
	if !vc.declSet[k] || strings.Contains(b, "q_") {
		vc.declSet[k] = true
		vc.fact(b, fmt.Sprintf("(and (= (unbox_%s %s) %s) ((_ is boxed) %s))", key, b, v, b))
	}
	return b
}

func (vc *VC) unbox(t types.Type, payload Term) Term {
	switch t.Underlying().(type) {
	case *types.Pointer, *types.Map, *types.Chan, *types.Signature:
		return payload
	}
	key := sanitize(types.TypeString(t, func(p *types.Package) string { return p.Name() }))
	s := vc.sortOf(t)
	vc.decl("fun:box_"+key, fmt.Sprintf("(declare-fun box_%s (%s) Ref)", key, s))
	vc.decl("fun:unbox_"+key, fmt.Sprintf("(declare-fun unbox_%s (Ref) %s)", key, s))
	return "(unbox_" + key + " " + payload + ")"
}

func (fr *Frame) typeAssert(st *State, x *ssa.TypeAssert) {
	vc := fr.vc
	v := fr.val(x.X)
	at := x.AssertedType
	var okT, valT Term
	if _, isIface := at.Underlying().(*types.Interface); isIface {
		// interface-to-interface: satisfaction is a function of the dynamic type tag
		key := sanitize(types.TypeString(at, func(p *types.Package) string { return p.Name() }))
		vc.decl("fun:impl_"+key, "(declare-fun impl_"+key+" (Int) Bool)")
		okT = "(and (not (= (i.tag " + v.T + ") 0)) (impl_" + key + " (i.tag " + v.T + ")))"
		if types.NewMethodSet(at).Len() == 0 {
			okT = "(not (= (i.tag " + v.T + ") 0))"
		}
		valT = smtIte(okT, v.T, "(mk-iface 0 nil)")
	} else {
		okT = "(= (i.tag " + v.T + ") " + vc.typeID(at) + ")"
		valT = smtIte(okT, vc.unbox(at, "(i.val "+v.T+")"), vc.zeroOf(at))
	}
	okN := vc.define(fr.prefix+x.Name()+"_ok", "Bool", okT)
	if x.CommaOk {
		val := vc.define(fr.prefix+x.Name(), vc.sortOf(at), valT)
		vc.introduce(st, val, at)
		fr.vals[x] = Val{Tuple: []Val{{T: val, Ty: at}, {T: okN, Ty: types.Typ[types.Bool]}}, Ty: x.Type()}
		return
	}
	fr.oblige(st, "typeassert", fr.exprText(x), okN, x.Pos())
	fr.defineVal(x, valT)
	vc.introduce(st, fr.vals[x].T, at)
}

func (fr *Frame) makeSlice(st *State, x *ssa.MakeSlice) {
	vc := fr.vc
	ln, cp := fr.val(x.Len).T, fr.val(x.Cap).T
	fr.oblige(st, "makeslice", "make len/cap of "+fr.exprText(x.Len), fmt.Sprintf("(and (<= 0 %s) (<= %s %s))", ln, ln, cp), x.Pos())
	arr := vc.allocate2(st, fr.prefix+x.Name()+"_arr")
	el := x.Type().Underlying().(*types.Slice).Elem()
	fr.defineVal(x, fmt.Sprintf("(mk-slice %s 0 %s %s)", arr, ln, cp))
	vc.zeroArray(st, arr, el)
}

// zeroArray states that all elements of a fresh array are zero.
func (vc *VC) zeroArray(st *State, arr Term, el types.Type) {
	for _, hv := range vc.elemVarsZero(el) {
		// quantified: forall i. H'[elem(arr,i)] = zero ; others unchanged is implied by freshness
		// of the array: nothing is known about H at elem(arr, i) for a fresh arr, so we
		// may simply assume the zero value there.
		vc.assumeAt(st, fmt.Sprintf("(forall ((i Int)) (! (= (select %s (elem %s i)) %s) :pattern ((elem %s i))))", vc.get(st, hv.name), arr, hv.zero, arr))
	}
}

type elemVar struct{ name, zero string }

func (vc *VC) elemVarsZero(el types.Type) []elemVar {
	switch u := el.Underlying().(type) {
	case *types.Struct:
		var out []elemVar
		for i := 0; i < u.NumFields(); i++ {
			ft := u.Field(i).Type()
			switch ft.Underlying().(type) {
			case *types.Struct, *types.Array:
				// nested values inside array elements: left unconstrained
				vc.note("nested struct inside slice element: zero-init not modelled")
			default:
				out = append(out, elemVar{vc.fieldVar(el, i), vc.zeroOf(ft)})
			}
		}
		return out
	case *types.Array:
		vc.note("array inside slice element: zero-init not modelled")
		return nil
	}
	return []elemVar{{vc.memVar(el), vc.zeroOf(el)}}
}

func (fr *Frame) next(st *State, x *ssa.Next) {
	vc := fr.vc
	tup := x.Type().(*types.Tuple)
	ok := vc.freshConst(fr.prefix+x.Name()+"_ok", "Bool")
	k := vc.freshConst(fr.prefix+x.Name()+"_k", vc.sortOf(tup.At(1).Type()))
	v := vc.freshConst(fr.prefix+x.Name()+"_v", vc.sortOf(tup.At(2).Type()))
	vc.introduce(st, k, tup.At(1).Type())
	vc.introduce(st, v, tup.At(2).Type())
	if x.IsString {
		s := fr.val(x.Iter).T
		vc.assumeAt(st, smtImp(ok, fmt.Sprintf("(and (<= 0 %s) (< %s %s))", k, k, vc.slenOf(s))))
	} else if rng, isR := x.Iter.(*ssa.Range); isR {
		if _, isMap := rng.X.Type().Underlying().(*types.Map); isMap {
			m := fr.val(rng.X).T
			vv, hv := vc.mapVars(rng.X.Type())
			mt := rng.X.Type().Underlying().(*types.Map)
			if vc.sortOf(tup.At(2).Type()) == vc.sortOf(mt.Elem()) && vc.sortOf(tup.At(1).Type()) == vc.sortOf(mt.Key()) {
				vc.assumeAt(st, smtImp(ok, fmt.Sprintf("(and (not (= %s nil)) (select (select %s %s) %s) (= %s (select (select %s %s) %s)))", m, vc.get(st, hv), m, k, v, vc.get(st, vv), m, k)))
			} else if vc.sortOf(tup.At(1).Type()) == vc.sortOf(mt.Key()) {
				// `for k := range m`: the value slot has no type
				vc.assumeAt(st, smtImp(ok, fmt.Sprintf("(and (not (= %s nil)) (select (select %s %s) %s))", m, vc.get(st, hv), m, k)))
			}
		}
	}
	fr.vals[x] = Val{Tuple: []Val{{T: ok, Ty: tup.At(0).Type()}, {T: k, Ty: tup.At(1).Type()}, {T: v, Ty: tup.At(2).Type()}}, Ty: x.Type()}
}

func (fr *Frame) panicAt(st *State, x *ssa.Panic) {
	vc := fr.vc
	if fr.spec {
		return
	}
	// explicit panic: allowed only when a panics-when clause of the function under
	// verification covers it
	goal := "false"
	if vc.con != nil && len(vc.con.Panics) > 0 {
		var cs []Term
		for _, p := range vc.con.Panics {
			env := &SpecEnv{vc: vc, fn: vc.fn, binds: vc.topBinds(), cur: vc.entry, old: vc.entry}
			cs = append(cs, env.boolExpr(p.Expr))
		}
		goal = smtOr(cs...)
	}
	anchor := "unreachable: " + fr.exprText(x.X)
	if mi, ok := x.X.(*ssa.MakeInterface); ok {
		anchor = "unreachable: panic(" + fr.exprText(mi.X) + ")"
	}
	fr.oblige(st, "panic", anchor, goal, x.Pos())
	if vc.con == nil || len(vc.con.Panics) == 0 {
		fr.panicIf(st, "true", "panic at "+anchor)
	}
}

func isConstRune(v ssa.Value) bool {
	c, ok := v.(*ssa.Const)
	if !ok || c.Value == nil || c.Value.Kind() != constant.Int {
		return false
	}
	n, ok := constant.Int64Val(constant.ToInt(c.Value))
	return ok && n >= 0 && n < 128
}

// floatLit: integral float constants below 2^53 are i2f(n) (exactly
// representable), so that float64(intConst) in code and contracts agree.
func (vc *VC) floatLit(v constant.Value) Term {
	if iv := constant.ToInt(v); iv.Kind() == constant.Int {
		if n, ok := constant.Int64Val(iv); ok && n > -(1<<53) && n < (1<<53) {
			vc.declI2F()
			return "(i2f " + smtInt(fmt.Sprint(n)) + ")"
		}
	}
	return vc.floatConst(v.ExactString())
}

// closureKeepsLocal: mc captures v; the closure value is used only as the callee
// of defer/call in this function, and inside the closure the captured variable
// is only read and written (its address does not travel further).
func closureKeepsLocal(mc *ssa.MakeClosure, v ssa.Value) bool {
	if mc.Referrers() == nil {
		return false
	}
	for _, r := range *mc.Referrers() {
		switch y := r.(type) {
		case *ssa.Defer:
			if y.Call.Value != ssa.Value(mc) {
				return false
			}
		case *ssa.Call:
			if y.Call.Value != ssa.Value(mc) {
				return false
			}
		case *ssa.DebugRef:
		default:
			return false
		}
	}
	fn, ok := mc.Fn.(*ssa.Function)
	if !ok {
		return false
	}
	for i, b := range mc.Bindings {
		if b != v {
			continue
		}
		fv := fn.FreeVars[i]
		if fv.Referrers() == nil {
			continue
		}
		var okUse func(val ssa.Value, rs []ssa.Instruction) bool
		okUse = func(val ssa.Value, rs []ssa.Instruction) bool {
			for _, r := range rs {
				switch y := r.(type) {
				case *ssa.UnOp:
					if y.Op != token.MUL {
						return false
					}
				case *ssa.Store:
					if y.Addr != val {
						return false
					}
				case *ssa.FieldAddr:
					if y.X != val || (y.Referrers() != nil && !okUse(y, *y.Referrers())) {
						return false
					}
				case *ssa.DebugRef:
				default:
					return false
				}
			}
			return true
		}
		if !okUse(fv, *fv.Referrers()) {
			return false
		}
	}
	return true
}
