package main

import (
	"os"
	"fmt"
	"go/token"
	"go/types"
	"strings"

	"golang.org/x/tools/go/ssa"
)

// Inferred write sets (DESIGN §2.4): for a callee without a `modifies` clause
// the set of heap variables it may write is computed from its SSA and that of
// its static callees (fixpoint over the static call graph).  Any dynamic call
// without a type contract, unknown external function, go statement or channel
// operation makes the set "everything".

type effSet struct {
	vars  map[string]bool         // may be written at arbitrary references
	fresh map[string]bool         // written only at references allocated during the call
	pw    map[int]map[string]bool // written only inside the object passed as parameter i (receiver = 0)
	cp    map[int]bool            // calls its func-typed parameter i
	all   bool
	why   string
}

func (eng *Engine) scratchVC() *VC {
	if eng.effVC == nil {
		eng.effVC = newVC(eng, nil, nil, nil, nil)
		eng.effVC.lemmaName = "effects"
	}
	return eng.effVC
}

// directEffects: writes performed by fn's own instructions, plus the repo
// callees whose effects must be added.
var effWhy = map[*ssa.Function]string{}

type argClass struct {
	kind int // 0 other, 1 fresh (allocated by the caller during this call), 2 the caller's own parameter q
	q    int
}

type callSite struct {
	callee *ssa.Function
	args   []argClass
	funArg []*ssa.Function // statically known function passed as argument i (closure or func value), else nil
}

// calleeList collects callees; siteArgs is the classification of the actual
// arguments of the call currently being added.
type calleeList struct {
	sites    []callSite
	siteArgs []argClass
	siteFuns []*ssa.Function
}

func (cl *calleeList) add(fs ...*ssa.Function) {
	for _, f := range fs {
		cl.sites = append(cl.sites, callSite{f, cl.siteArgs, cl.siteFuns})
	}
}

func staticFuncOf(v ssa.Value) *ssa.Function {
	switch x := v.(type) {
	case *ssa.MakeClosure:
		if f, ok := x.Fn.(*ssa.Function); ok {
			return f
		}
	case *ssa.Function:
		return x
	case *ssa.ChangeType:
		return staticFuncOf(x.X)
	}
	return nil
}

// paramRoot: v is (an interior pointer into / a sub-slice of) parameter q of fn.
func paramRoot(fn *ssa.Function, v ssa.Value, depth int) (int, bool) {
	if depth > 8 {
		return 0, false
	}
	switch x := v.(type) {
	case *ssa.Parameter:
		for i, p := range fn.Params {
			if p == x {
				return i, true
			}
		}
	case *ssa.FreeVar:
		// captured variable k of a closure: index -(k+1)
		for k, fv := range fn.FreeVars {
			if fv == x {
				return -(k + 1), true
			}
		}
	case *ssa.FieldAddr:
		return paramRoot(fn, x.X, depth+1)
	case *ssa.IndexAddr:
		return paramRoot(fn, x.X, depth+1)
	case *ssa.Slice:
		return paramRoot(fn, x.X, depth+1)
	case *ssa.ChangeType:
		return paramRoot(fn, x.X, depth+1)
	case *ssa.MakeInterface:
		return paramRoot(fn, x.X, depth+1)
	}
	return 0, false
}

func (eng *Engine) classifyArg(fn *ssa.Function, a ssa.Value) argClass {
	v := a
	for {
		switch x := v.(type) {
		case *ssa.ChangeType:
			v = x.X
			continue
		case *ssa.MakeInterface:
			v = x.X
			continue
		}
		break
	}
	if isAllocBased(v) || eng.freshBase(v, 0) {
		return argClass{kind: 1}
	}
	if q, ok := paramRoot(fn, v, 0); ok {
		return argClass{kind: 2, q: q}
	}
	return argClass{}
}

func (eng *Engine) directEffects(fn *ssa.Function) (map[string]bool, map[string]bool, map[int]map[string]bool, map[int]bool, []callSite, bool) {
	vc := eng.scratchVC()
	vars := map[string]bool{}
	fresh := map[string]bool{}
	pw := map[int]map[string]bool{}
	cp := map[int]bool{}
	callees := &calleeList{}
	all := false
	addCall := func(c *ssa.CallCommon) {
		if b, ok := c.Value.(*ssa.Builtin); ok {
			// append/copy write the elements of their first argument
			tmp := map[string]bool{}
			if vc.callEffects(c, tmp, 99) {
				all = true
			}
			dst := map[string]bool{}
			switch b.Name() {
			case "append":
				// append writes into its first argument's spare capacity or a fresh array;
				// writes into spare capacity are invisible through any existing slice
				// header only if nobody else holds the array: keep it conservative unless fresh
				cls := eng.classifyArg(fn, c.Args[0])
				if cls.kind == 1 || isNilConst(c.Args[0]) {
					dst = fresh
				} else if cls.kind == 2 {
					if pw[cls.q] == nil {
						pw[cls.q] = map[string]bool{}
					}
					dst = pw[cls.q]
				} else {
					dst = vars
				}
			case "copy":
				cls := eng.classifyArg(fn, c.Args[0])
				if cls.kind == 1 {
					dst = fresh
				} else if cls.kind == 2 {
					if pw[cls.q] == nil {
						pw[cls.q] = map[string]bool{}
					}
					dst = pw[cls.q]
				} else {
					dst = vars
				}
			default:
				dst = vars
			}
			for v := range tmp {
				dst[v] = true
			}
			return
		}
		// classify the actual arguments (receiver first for invoke)
		var actuals []ssa.Value
		if c.IsInvoke() {
			actuals = append(actuals, c.Value)
		}
		actuals = append(actuals, c.Args...)
		callees.siteArgs = nil
		callees.siteFuns = nil
		for _, a := range actuals {
			callees.siteArgs = append(callees.siteArgs, eng.classifyArg(fn, a))
			callees.siteFuns = append(callees.siteFuns, staticFuncOf(a))
		}
		callee := c.StaticCallee()
		if callee == nil && !c.IsInvoke() {
			// a call of one of fn's own func-typed parameters: resolved at fn's call sites
			if p, ok := c.Value.(*ssa.Parameter); ok && !repoPrivateFuncType(p.Type()) {
				for i, q := range fn.Params {
					if q == p {
						cp[i] = true
						return
					}
				}
			}
			// a call of a closure created in this function
			if f := staticFuncOf(c.Value); f != nil {
				callees.add(f)
				return
			}
		}
		if callee == nil {
			if tc := eng.typeContract(c); tc != nil && (tc.ModSet || tc.Pure) {
				if !tc.Pure && vc.contractEffects(tc, nil, vars) {
					all = true
				}
				return
			} else if tc != nil && tc.RepoImpls && c.IsInvoke() {
				if n, ok := types.Unalias(c.Value.Type()).(*types.Named); ok {
					if impls := eng.implementations(n, c.Method); len(impls) > 0 {
						callees.add(impls...)
						return
					}
				}
			}
			// an unexported interface can only be implemented inside the repository
			if n, ok := types.Unalias(c.Value.Type()).(*types.Named); ok && c.IsInvoke() && !n.Obj().Exported() && n.Obj().Pkg() != nil && strings.HasPrefix(n.Obj().Pkg().Path(), repoPrefix) {
				if impls := eng.implementations(n, c.Method); len(impls) > 0 {
					callees.add(impls...)
					return
				}
			}
			// a value of an unexported named func type can only be one of the
			// repository's own address-taken functions of that signature
			if n, ok := types.Unalias(c.Value.Type()).(*types.Named); ok && !c.IsInvoke() && !n.Obj().Exported() && strings.HasPrefix(n.Obj().Pkg().Path(), repoPrefix) {
				if sig, ok := n.Underlying().(*types.Signature); ok {
					callees.add(eng.funcsWithSig(sig)...)
					return
				}
			}
			all = true
			effWhy[fn] += " dynamic:" + calleeName(c)
			return
		}
		if !isRepoFunc(callee) {
			// sort.Sort / sort.Stable call back into the Len/Less/Swap methods of
			// their argument
			if full := callee.String(); (full == "sort.Sort" || full == "sort.Stable" || full == "sort.IsSorted") && len(c.Args) == 1 {
				if mi, ok := c.Args[0].(*ssa.MakeInterface); ok {
					okAll := true
					for _, mn := range []string{"Len", "Less", "Swap"} {
						sel := eng.prog.MethodSets.MethodSet(mi.X.Type()).Lookup(nil, mn)
						if sel == nil {
							okAll = false
							break
						}
						if f := eng.prog.MethodValue(sel); f != nil {
							callees.add(f)
						} else {
							okAll = false
						}
					}
					if okAll {
						return
					}
				}
			}
			switch externalKind(callee) {
			case "pure":
			case "elems":
				for _, a := range c.Args {
					if sl, ok := a.Type().Underlying().(*types.Slice); ok {
						for _, v := range vc.varsOfType(sl.Elem()) {
							vars[v] = true
						}
					}
				}
			default:
				all = true
				effWhy[fn] += " external:" + callee.String()
			}
			return
		}
		con := eng.conOf[callee]
		if con != nil && !con.Inline {
			if con.Pure {
				return
			}
			if con.ModSet {
				if vc.contractEffects(con, callee, vars) {
					all = true
				}
				return
			}
		}
		if len(callee.Blocks) == 0 {
			all = true
			return
		}
		callees.add(callee)
	}
	for _, b := range fn.Blocks {
		for _, in := range b.Instrs {
			switch x := in.(type) {
			case *ssa.Go:
				all = true
			case *ssa.Defer:
				addCall(&x.Call)
			case *ssa.Call:
				addCall(&x.Call)
			case *ssa.Send, *ssa.Select:
				// channel operations do not write modelled memory
			case *ssa.Alloc, *ssa.MakeSlice, *ssa.MakeMap:
				vc.instrEffects(in, fresh, 99)
			case *ssa.Store:
				if isAllocBased(x.Addr) || eng.freshBase(x.Addr, 0) {
					vc.instrEffects(in, fresh, 99)
				} else if q, ok := paramRoot(fn, x.Addr, 0); ok {
					if pw[q] == nil {
						pw[q] = map[string]bool{}
					}
					vc.instrEffects(in, pw[q], 99)
				} else if vc.instrEffects(in, vars, 99) {
					all = true
				}
			case *ssa.MapUpdate:
				if _, isMk := x.Map.(*ssa.MakeMap); isMk {
					vc.instrEffects(in, fresh, 99)
				} else {
					vc.instrEffects(in, vars, 99)
				}
			default:
				if vc.instrEffects(in, vars, 99) {
					all = true
				}
			}
		}
	}
	// anonymous functions created here run when called; their effects are
	// accounted for at their call sites (dynamic calls are "all")
	if len(vars) > 0 {
		effWhy[fn] += " direct-writes:" + strings.Join(sortedKeys(vars), ",")
	}
	return vars, fresh, pw, cp, callees.sites, all
}

func isNilConst(v ssa.Value) bool {
	c, ok := v.(*ssa.Const)
	return ok && c.Value == nil
}

// inferredEffects returns the transitive write set of fn.
func (eng *Engine) inferredEffects(fn *ssa.Function) *effSet {
	if es, ok := eng.effMemo[fn]; ok {
		return es
	}
	// reachable set
	type node struct {
		vars  map[string]bool
		fresh map[string]bool
		pw    map[int]map[string]bool
		cp    map[int]bool
		sites []callSite
		all   bool
	}
	nodes := map[*ssa.Function]*node{}
	var order []*ssa.Function
	var visit func(f *ssa.Function)
	visit = func(f *ssa.Function) {
		if _, ok := nodes[f]; ok {
			return
		}
		if es, ok := eng.effMemo[f]; ok {
			nodes[f] = &node{vars: es.vars, fresh: es.fresh, pw: es.pw, cp: es.cp, all: es.all}
			return
		}
		v, fr, pw, cp, c, a := eng.directEffects(f)
		n := &node{vars: v, fresh: fr, pw: pw, cp: cp, sites: c, all: a}
		nodes[f] = n
		order = append(order, f)
		for _, cs := range c {
			visit(cs.callee)
			for _, ff := range cs.funArg {
				if ff != nil {
					visit(ff)
				}
			}
		}
	}
	visit(fn)
	add := func(dst map[string]bool, v string, changed *bool) {
		if !dst[v] {
			dst[v] = true
			*changed = true
		}
	}
	changed := true
	for changed {
		changed = false
		for _, f := range order {
			n := nodes[f]
			for _, cs := range n.sites {
				cn := nodes[cs.callee]
				if cn.all && !n.all {
					n.all = true
					changed = true
				}
				for v := range cn.vars {
					add(n.vars, v, &changed)
				}
				for v := range cn.fresh {
					add(n.fresh, v, &changed)
				}
				// the callee calls its func-typed parameter pi: add the effects of the
				// function passed there (when it is statically known)
				for pi := range cn.cp {
					var ff *ssa.Function
					if pi >= 0 && pi < len(cs.funArg) {
						ff = cs.funArg[pi]
					}
					if ff == nil {
						// passed through from our own parameter?
						if pi >= 0 && pi < len(cs.args) && cs.args[pi].kind == 2 {
							if !n.cp[cs.args[pi].q] {
								n.cp[cs.args[pi].q] = true
								changed = true
							}
							continue
						}
						if !n.all {
							n.all = true
							changed = true
						}
						continue
					}
					fnode := nodes[ff]
					if fnode == nil {
						continue
					}
					if fnode.all && !n.all {
						n.all = true
						changed = true
					}
					for v := range fnode.vars {
						add(n.vars, v, &changed)
					}
					for v := range fnode.fresh {
						add(n.fresh, v, &changed)
					}
					for _, ws := range fnode.pw {
						for v := range ws {
							add(n.vars, v, &changed)
						}
					}
				}
				for pi, ws := range cn.pw {
					cls := argClass{}
					if pi >= 0 && pi < len(cs.args) {
						cls = cs.args[pi]
					}
					for v := range ws {
						switch cls.kind {
						case 1:
							add(n.fresh, v, &changed)
						case 2:
							if n.pw[cls.q] == nil {
								n.pw[cls.q] = map[string]bool{}
							}
							add(n.pw[cls.q], v, &changed)
						default:
							add(n.vars, v, &changed)
						}
					}
				}
			}
		}
	}
	for _, f := range order {
		n := nodes[f]
		eng.effMemo[f] = &effSet{vars: n.vars, fresh: n.fresh, pw: n.pw, cp: n.cp, all: n.all}
	}
	return eng.effMemo[fn]
}

// havocVars gives the listed heap variables (those in scope) fresh versions.
func (vc *VC) havocVars(st *State, vars, fresh map[string]bool) {
	old := st.clone()
	for _, name := range vc.heapOrder {
		if name == "CLK" || strings.HasPrefix(name, "Gh_") || strings.HasPrefix(name, "DF_") {
			continue
		}
		if vars[name] {
			st.heap[name] = vc.havocOne(old, name)
			continue
		}
		if fresh[name] && strings.HasPrefix(vc.heapSort[name], "(Array Ref ") {
			// Written only at references allocated during the call.  Nothing is
			// known about the array at references that were not yet allocated, so
			// keeping the same array is a sound over-approximation: objects that
			// existed keep their values, the callee's new objects have arbitrary
			// contents except what its ensures clauses state.
			continue
		} else if fresh[name] {
			st.heap[name] = vc.freshConst(name, vc.heapSort[name])
		}
	}
	nclk := vc.freshConst("CLK", "Int")
	vc.assume("(>= " + nclk + " " + old.heap["CLK"] + ")")
	st.heap["CLK"] = nclk
	vc.preserveLocals(old, st)
}

// havocImpls havocs the union of the write sets of the repository's
// implementations of an interface method (type contract `like-repo-implementations`).
func (vc *VC) havocImpls(st *State, iface *types.Named, m *types.Func, name string) bool {
	impls := vc.eng.implementations(iface, m)
	if len(impls) == 0 {
		return false
	}
	vars, fresh := map[string]bool{}, map[string]bool{}
	for _, f := range impls {
		es := vc.eng.inferredEffects(f)
		if es.all {
			return false
		}
		for v := range es.vars {
			vars[v] = true
		}
		for v := range es.fresh {
			fresh[v] = true
		}
	}
	vc.note("assumed: host implementations of " + name + " write no more than the repository's own implementations")
	vc.havocVars(st, vars, fresh)
	return true
}

// havocCallee havocs what callee may write (inferred), or everything.
func (vc *VC) havocCallee(st *State, callee *ssa.Function, name string) {
	if callee != nil && isRepoFunc(callee) && len(callee.Blocks) > 0 {
		es := vc.eng.inferredEffects(callee)
		if !es.all {
			vc.note("inferred write set used for " + name)
			vars := es.vars
			if len(es.pw) > 0 {
				// writes inside the objects passed as arguments: harmless when the
				// argument was allocated by the caller (fresh-only), otherwise arbitrary
				vars = map[string]bool{}
				for v := range es.vars {
					vars[v] = true
				}
				for pi, ws := range es.pw {
					freshArg := false
					if c := vc.curCall; c != nil && vc.curCaller != nil {
						var actuals []ssa.Value
						if c.IsInvoke() {
							actuals = append(actuals, c.Value)
						}
						actuals = append(actuals, c.Args...)
						if pi < len(actuals) && vc.eng.classifyArg(vc.curCaller, actuals[pi]).kind == 1 {
							freshArg = true
						}
					}
					if !freshArg {
						for v := range ws {
							vars[v] = true
						}
					}
				}
			}
			// the callee calls back a function passed as argument: its effects count too
			okCP := true
			for pi := range es.cp {
				var ff *ssa.Function
				if c := vc.curCall; c != nil {
					var actuals []ssa.Value
					if c.IsInvoke() {
						actuals = append(actuals, c.Value)
					}
					actuals = append(actuals, c.Args...)
					if pi < len(actuals) {
						ff = staticFuncOf(actuals[pi])
					}
				}
				if ff == nil {
					okCP = false
					break
				}
				fes := vc.eng.inferredEffects(ff)
				if fes.all {
					okCP = false
					break
				}
				if len(vars) == len(es.vars) {
					nv := map[string]bool{}
					for v := range vars {
						nv[v] = true
					}
					vars = nv
				}
				for v := range fes.vars {
					vars[v] = true
				}
				for qi, ws := range fes.pw {
					if qi < 0 {
						// a write to captured variable k of the closure: exactly the cell the
						// caller bound there changes
						k := -qi - 1
						done := false
						if c := vc.curCall; c != nil && vc.curFrame != nil {
							var actuals []ssa.Value
							if c.IsInvoke() {
								actuals = append(actuals, c.Value)
							}
							actuals = append(actuals, c.Args...)
							if pi < len(actuals) {
								if mc, ok := actuals[pi].(*ssa.MakeClosure); ok && k < len(mc.Bindings) {
									cell := vc.curFrame.val(mc.Bindings[k])
									if cell.T != "" && cell.Place == nil {
										for v := range ws {
											if _, in := vc.heapSort[v]; in && strings.HasPrefix(vc.heapSort[v], "(Array Ref ") {
												es := strings.TrimSuffix(strings.TrimPrefix(vc.heapSort[v], "(Array Ref "), ")")
												nv := vc.freshConst(v+"_at", es)
												vc.set(st, v, "(store "+vc.get(st, v)+" "+cell.T+" "+nv+")")
											}
										}
										done = true
									}
								}
							}
						}
						if done {
							continue
						}
					}
					for v := range ws {
						vars[v] = true
					}
				}
			}
			if okCP {
				if os.Getenv("GOVC_KEEPSGAP") != "" && vc.con != nil && len(vc.con.Keeps) > 0 && vc.tableEntryKeeps(callee) == nil && (callee == nil || vc.eng.conOf[callee] == nil || len(vc.eng.conOf[callee].Keeps) == 0) {
					for v := range vars {
						if strings.Contains(v, "LVal") {
							fmt.Fprintf(os.Stderr, "keeps-gap: %s: call %s havocs %s (fresh-only=%v)\n", vc.fn, name, v, es.fresh[v])
						}
					}
				}
				vc.havocVars(st, vars, es.fresh)
				return
			}
		}
	}
	if os.Getenv("GOVC_KEEPSGAP") != "" && vc.con != nil && len(vc.con.Keeps) > 0 && vc.tableEntryKeeps(callee) == nil && (callee == nil || vc.eng.conOf[callee] == nil || len(vc.eng.conOf[callee].Keeps) == 0) {
		fmt.Fprintf(os.Stderr, "keeps-gap: %s: call %s havocs everything\n", vc.fn, name)
	}
	vc.note("call havocs the whole heap (dynamic or unknown callees reachable): " + name)
	vc.havocAll(st, name)
}

// funcsWithSig: repository functions whose value is taken somewhere (closures
// and function values) and whose signature is identical to sig.
func (eng *Engine) funcsWithSig(sig *types.Signature) []*ssa.Function {
	if eng.addrTaken == nil {
		eng.addrTaken = map[*ssa.Function]bool{}
		for _, fn := range eng.repoFuncs() {
			for _, b := range fn.Blocks {
				for _, in := range b.Instrs {
					if mc, ok := in.(*ssa.MakeClosure); ok {
						if f, ok := mc.Fn.(*ssa.Function); ok {
							eng.addrTaken[f] = true
						}
					}
					for _, op := range in.Operands(nil) {
						if f, ok := (*op).(*ssa.Function); ok {
							if ci, isCall := in.(ssa.CallInstruction); isCall && ci.Common().Value == *op {
								continue
							}
							eng.addrTaken[f] = true
						}
					}
				}
			}
		}
	}
	var out []*ssa.Function
	for f := range eng.addrTaken {
		fs := f.Signature
		if fs.Recv() == nil && types.Identical(types.NewSignatureType(nil, nil, nil, fs.Params(), fs.Results(), fs.Variadic()), types.NewSignatureType(nil, nil, nil, sig.Params(), sig.Results(), sig.Variadic())) {
			out = append(out, f)
		}
	}
	return out
}

// implementations: methods named m.Name() of every repository type that
// implements the (unexported) interface iface.
func (eng *Engine) implementations(iface *types.Named, m *types.Func) []*ssa.Function {
	it, ok := iface.Underlying().(*types.Interface)
	if !ok {
		return nil
	}
	var out []*ssa.Function
	for _, sp := range eng.spkgs {
		if !strings.HasPrefix(sp.Pkg.Path(), repoPrefix) {
			continue
		}
		for _, mem := range sp.Members {
			tm, ok := mem.(*ssa.Type)
			if !ok {
				continue
			}
			for _, t := range []types.Type{tm.Type(), types.NewPointer(tm.Type())} {
				if _, isI := t.Underlying().(*types.Interface); isI {
					continue
				}
				if !types.Implements(t, it) {
					continue
				}
				sel := eng.prog.MethodSets.MethodSet(t).Lookup(m.Pkg(), m.Name())
				if sel == nil {
					continue
				}
				if f := eng.prog.MethodValue(sel); f != nil {
					out = append(out, f)
				}
			}
		}
	}
	return out
}

// freshBase: the object a store writes to was allocated during the current
// call — directly, or by a callee that returns only objects it allocated.
func (eng *Engine) freshBase(addr ssa.Value, depth int) bool {
	return eng.freshBaseV(addr, depth, map[ssa.Value]bool{})
}

func (eng *Engine) freshBaseV(addr ssa.Value, depth int, visiting map[ssa.Value]bool) bool {
	if depth > 8 {
		return false
	}
	if visiting[addr] {
		return true // a cycle through phis: fresh if every other source is
	}
	switch x := addr.(type) {
	case *ssa.Alloc:
		return true
	case *ssa.FieldAddr:
		return eng.freshBaseV(x.X, depth+1, visiting)
	case *ssa.IndexAddr:
		return eng.freshBaseV(x.X, depth+1, visiting)
	case *ssa.MakeSlice, *ssa.MakeMap:
		return true
	case *ssa.Slice:
		return eng.freshBaseV(x.X, depth+1, visiting)
	case *ssa.ChangeType:
		return eng.freshBaseV(x.X, depth+1, visiting)
	case *ssa.Phi:
		visiting[x] = true
		defer delete(visiting, x)
		for _, e := range x.Edges {
			if !eng.freshBaseV(e, depth+1, visiting) {
				return false
			}
		}
		return len(x.Edges) > 0
	case *ssa.Call:
		if b, ok := x.Call.Value.(*ssa.Builtin); ok && b.Name() == "append" && len(x.Call.Args) > 0 {
			// append to a fresh (or nil) slice yields a slice over fresh storage
			return isNilConst(x.Call.Args[0]) || eng.freshBaseV(x.Call.Args[0], depth+1, visiting)
		}
		c := x.Call.StaticCallee()
		return c != nil && eng.returnsFresh(c)
	case *ssa.Extract:
		if call, ok := x.Tuple.(*ssa.Call); ok {
			c := call.Call.StaticCallee()
			return c != nil && eng.returnsFreshAt(c, x.Index)
		}
	case *ssa.UnOp:
		// a load from a local variable cell (possibly captured by closures) that
		// only ever holds storage allocated here: `acc = append(acc, v)` accumulators
		if x.Op == token.MUL {
			// constructor(arg).field where the constructor stores its parameter in
			// that field of the object it allocates: as fresh as the argument
			if fa, ok := x.X.(*ssa.FieldAddr); ok {
				if call, ok := fa.X.(*ssa.Call); ok {
					if c := call.Call.StaticCallee(); c != nil && eng.returnsFresh(c) {
						if pi, ok := eng.fieldFromParam(c, fa.Field); ok && pi < len(call.Call.Args) {
							return eng.freshBaseV(call.Call.Args[pi], depth+1, visiting)
						}
					}
				}
			}
			if cell := eng.cellOf(x.X); cell != nil {
				visiting[x] = true
				defer delete(visiting, x)
				return eng.accumulatorCell(cell, depth+1, visiting)
			}
		}
	}
	return false
}

// cellOf resolves an address to the local variable cell (an Alloc of the
// enclosing function) it denotes, looking through closure captures.
func (eng *Engine) cellOf(addr ssa.Value) *ssa.Alloc {
	switch a := addr.(type) {
	case *ssa.Alloc:
		return a
	case *ssa.FreeVar:
		fn := a.Parent()
		parent := fn.Parent()
		if parent == nil {
			return nil
		}
		idx := -1
		for i, fv := range fn.FreeVars {
			if fv == a {
				idx = i
			}
		}
		var found *ssa.Alloc
		for _, b := range parent.Blocks {
			for _, in := range b.Instrs {
				if mc, ok := in.(*ssa.MakeClosure); ok && mc.Fn == fn && idx >= 0 && idx < len(mc.Bindings) {
					c := eng.cellOf(mc.Bindings[idx])
					if c == nil || (found != nil && found != c) {
						return nil
					}
					found = c
				}
			}
		}
		return found
	}
	return nil
}

// accumulatorCell: every value ever stored into the variable cell is storage
// allocated by this function family (make, nil, append to the cell's own
// value, a reslice of it), and the cell's address is used only for loads,
// stores and closure captures.
func (eng *Engine) accumulatorCell(cell *ssa.Alloc, depth int, visiting map[ssa.Value]bool) bool {
	if eng.accMemo == nil {
		eng.accMemo = map[*ssa.Alloc]int{}
	}
	switch eng.accMemo[cell] {
	case 1:
		return true
	case 2:
		return false
	case 3:
		return true // in progress (cycle): fresh if everything else is
	}
	eng.accMemo[cell] = 3
	ok := true
	var addrs []ssa.Value
	addrs = append(addrs, cell)
	// free variables of the closures (transitively) that capture the cell
	var walk func(fn *ssa.Function, v ssa.Value)
	walk = func(fn *ssa.Function, v ssa.Value) {
		for _, b := range fn.Blocks {
			for _, in := range b.Instrs {
				mc, isMC := in.(*ssa.MakeClosure)
				if !isMC {
					continue
				}
				for i, bnd := range mc.Bindings {
					if bnd == v {
						cf := mc.Fn.(*ssa.Function)
						if i < len(cf.FreeVars) {
							addrs = append(addrs, cf.FreeVars[i])
							walk(cf, cf.FreeVars[i])
						}
					}
				}
			}
		}
	}
	walk(cell.Parent(), cell)
	for _, a := range addrs {
		refs := a.Referrers()
		if refs == nil {
			continue
		}
		for _, r := range *refs {
			switch y := r.(type) {
			case *ssa.Store:
				if y.Addr != a {
					ok = false // the address itself is stored somewhere
					continue
				}
				if isNilConst(y.Val) {
					continue
				}
				if !eng.freshBaseV(y.Val, depth+1, visiting) {
					ok = false
				}
			case *ssa.UnOp, *ssa.MakeClosure, *ssa.DebugRef:
			default:
				ok = false
			}
		}
	}
	if ok {
		eng.accMemo[cell] = 1
	} else {
		eng.accMemo[cell] = 2
	}
	return ok
}

func (eng *Engine) returnsFresh(fn *ssa.Function) bool { return eng.returnsFreshAt(fn, 0) }

// returnsFreshAt: every value returned at result index idx is an object
// allocated by fn (or by a callee with the same property).
func (eng *Engine) returnsFreshAt(fn *ssa.Function, idx int) bool {
	key := fmt.Sprintf("%p#%d", fn, idx)
	if v, ok := eng.freshMemo[key]; ok {
		return v
	}
	if eng.freshMemo == nil {
		eng.freshMemo = map[string]bool{}
	}
	eng.freshMemo[key] = false // cycles: not fresh
	if !isRepoFunc(fn) || len(fn.Blocks) == 0 {
		return false
	}
	ok := true
	n := 0
	for _, b := range fn.Blocks {
		for _, in := range b.Instrs {
			r, isRet := in.(*ssa.Return)
			if !isRet || idx >= len(r.Results) {
				continue
			}
			n++
			if !eng.freshBase(r.Results[idx], 1) {
				ok = false
			}
		}
	}
	eng.freshMemo[key] = ok && n > 0
	return ok && n > 0
}

// repoPrivateFuncType: an unexported named func type of the repository; its
// values can only be the repository's own functions of that signature, which
// the class-hierarchy fallback enumerates.
func repoPrivateFuncType(t types.Type) bool {
	n, ok := types.Unalias(t).(*types.Named)
	if !ok || n.Obj().Exported() || n.Obj().Pkg() == nil || !strings.HasPrefix(n.Obj().Pkg().Path(), repoPrefix) {
		return false
	}
	_, isSig := n.Underlying().(*types.Signature)
	return isSig
}

// fieldFromParam: fn returns an object it allocates, and the only store to
// field `field` of that object stores fn's parameter number i.
func (eng *Engine) fieldFromParam(fn *ssa.Function, field int) (int, bool) {
	if len(fn.Blocks) == 0 {
		return 0, false
	}
	var obj *ssa.Alloc
	for _, b := range fn.Blocks {
		for _, in := range b.Instrs {
			if r, ok := in.(*ssa.Return); ok {
				if len(r.Results) != 1 {
					return 0, false
				}
				a, ok := r.Results[0].(*ssa.Alloc)
				if !ok || (obj != nil && obj != a) {
					return 0, false
				}
				obj = a
			}
		}
	}
	if obj == nil || obj.Referrers() == nil {
		return 0, false
	}
	found := -1
	for _, r := range *obj.Referrers() {
		fa, ok := r.(*ssa.FieldAddr)
		if !ok || fa.Field != field || fa.Referrers() == nil {
			continue
		}
		for _, rr := range *fa.Referrers() {
			st, ok := rr.(*ssa.Store)
			if !ok || st.Addr != fa {
				return 0, false
			}
			p, ok := st.Val.(*ssa.Parameter)
			if !ok || found >= 0 {
				return 0, false
			}
			for i, q := range fn.Params {
				if q == p {
					found = i
				}
			}
		}
	}
	return found, found >= 0
}
