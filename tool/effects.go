package main

import (
	"fmt"
	"go/types"
	"strings"

	"golang.org/x/tools/go/ssa"
)

// Inferred write sets (DESIGN §2.4): for a callee without a `modifies` clause
// the set of heap variables it may write is computed from its SSA and that of
// its static callees (fixpoint over the static call graph).  Any dynamic call
// without a type contract, unknown external function, go statement or channel
// operation makes the set "everything".

type effSet struct {
	vars  map[string]bool // may be written at arbitrary references
	fresh map[string]bool // written only at references allocated during the call
	all   bool
	why   string
}

func (eng *Engine) scratchVC() *VC {
	if eng.effVC == nil {
		eng.effVC = newVC(eng, nil, nil, nil, nil)
		eng.effVC.lemmaName = "effects"
	}
	return eng.effVC
}

// directEffects: writes performed by fn's own instructions, plus the repo
// callees whose effects must be added.
var effWhy = map[*ssa.Function]string{}

func (eng *Engine) directEffects(fn *ssa.Function) (map[string]bool, map[string]bool, []*ssa.Function, bool) {
	vc := eng.scratchVC()
	vars := map[string]bool{}
	fresh := map[string]bool{}
	var callees []*ssa.Function
	all := false
	addCall := func(c *ssa.CallCommon) {
		if b, ok := c.Value.(*ssa.Builtin); ok {
			_ = b
			if vc.callEffects(c, vars, 99) {
				all = true
			}
			return
		}
		callee := c.StaticCallee()
		if callee == nil {
			if tc := eng.typeContract(c); tc != nil && (tc.ModSet || tc.Pure) {
				if !tc.Pure && vc.contractEffects(tc, nil, vars) {
					all = true
				}
				return
			} else if tc != nil && tc.RepoImpls && c.IsInvoke() {
				if n, ok := types.Unalias(c.Value.Type()).(*types.Named); ok {
					if impls := eng.implementations(n, c.Method); len(impls) > 0 {
						callees = append(callees, impls...)
						return
					}
				}
			}
			// an unexported interface can only be implemented inside the repository
			if n, ok := types.Unalias(c.Value.Type()).(*types.Named); ok && c.IsInvoke() && !n.Obj().Exported() && n.Obj().Pkg() != nil && strings.HasPrefix(n.Obj().Pkg().Path(), repoPrefix) {
				if impls := eng.implementations(n, c.Method); len(impls) > 0 {
					callees = append(callees, impls...)
					return
				}
			}
			// a value of an unexported named func type can only be one of the
			// repository's own address-taken functions of that signature
			if n, ok := types.Unalias(c.Value.Type()).(*types.Named); ok && !c.IsInvoke() && !n.Obj().Exported() && strings.HasPrefix(n.Obj().Pkg().Path(), repoPrefix) {
				if sig, ok := n.Underlying().(*types.Signature); ok {
					callees = append(callees, eng.funcsWithSig(sig)...)
					return
				}
			}
			all = true
			effWhy[fn] += " dynamic:" + calleeName(c)
			return
		}
		if !isRepoFunc(callee) {
			// sort.Sort / sort.Stable call back into the Len/Less/Swap methods of
			// their argument
			if full := callee.String(); (full == "sort.Sort" || full == "sort.Stable" || full == "sort.IsSorted") && len(c.Args) == 1 {
				if mi, ok := c.Args[0].(*ssa.MakeInterface); ok {
					okAll := true
					for _, mn := range []string{"Len", "Less", "Swap"} {
						sel := eng.prog.MethodSets.MethodSet(mi.X.Type()).Lookup(nil, mn)
						if sel == nil {
							okAll = false
							break
						}
						if f := eng.prog.MethodValue(sel); f != nil {
							callees = append(callees, f)
						} else {
							okAll = false
						}
					}
					if okAll {
						return
					}
				}
			}
			switch externalKind(callee) {
			case "pure":
			case "elems":
				for _, a := range c.Args {
					if sl, ok := a.Type().Underlying().(*types.Slice); ok {
						for _, v := range vc.varsOfType(sl.Elem()) {
							vars[v] = true
						}
					}
				}
			default:
				all = true
				effWhy[fn] += " external:" + callee.String()
			}
			return
		}
		con := eng.conOf[callee]
		if con != nil && !con.Inline {
			if con.Pure {
				return
			}
			if con.ModSet {
				if vc.contractEffects(con, callee, vars) {
					all = true
				}
				return
			}
		}
		if len(callee.Blocks) == 0 {
			all = true
			return
		}
		callees = append(callees, callee)
	}
	for _, b := range fn.Blocks {
		for _, in := range b.Instrs {
			switch x := in.(type) {
			case *ssa.Go:
				all = true
			case *ssa.Defer:
				addCall(&x.Call)
			case *ssa.Call:
				addCall(&x.Call)
			case *ssa.Send, *ssa.Select:
				// channel operations do not write modelled memory
			case *ssa.Alloc, *ssa.MakeSlice, *ssa.MakeMap:
				vc.instrEffects(in, fresh, 99)
			case *ssa.Store:
				if isAllocBased(x.Addr) || eng.freshBase(x.Addr, 0) {
					vc.instrEffects(in, fresh, 99)
				} else if vc.instrEffects(in, vars, 99) {
					all = true
				}
			case *ssa.MapUpdate:
				if _, isMk := x.Map.(*ssa.MakeMap); isMk {
					vc.instrEffects(in, fresh, 99)
				} else {
					vc.instrEffects(in, vars, 99)
				}
			default:
				if vc.instrEffects(in, vars, 99) {
					all = true
				}
			}
		}
	}
	// anonymous functions created here run when called; their effects are
	// accounted for at their call sites (dynamic calls are "all")
	if len(vars) > 0 {
		effWhy[fn] += " direct-writes:" + strings.Join(sortedKeys(vars), ",")
	}
	return vars, fresh, callees, all
}

// inferredEffects returns the transitive write set of fn.
func (eng *Engine) inferredEffects(fn *ssa.Function) *effSet {
	if es, ok := eng.effMemo[fn]; ok {
		return es
	}
	// reachable set
	type node struct {
		vars    map[string]bool
		fresh   map[string]bool
		callees []*ssa.Function
		all     bool
	}
	nodes := map[*ssa.Function]*node{}
	var order []*ssa.Function
	var visit func(f *ssa.Function)
	visit = func(f *ssa.Function) {
		if _, ok := nodes[f]; ok {
			return
		}
		if es, ok := eng.effMemo[f]; ok {
			nodes[f] = &node{vars: es.vars, fresh: es.fresh, all: es.all}
			return
		}
		v, fr, c, a := eng.directEffects(f)
		n := &node{vars: v, fresh: fr, callees: c, all: a}
		nodes[f] = n
		order = append(order, f)
		for _, cf := range c {
			visit(cf)
		}
	}
	visit(fn)
	changed := true
	for changed {
		changed = false
		for _, f := range order {
			n := nodes[f]
			for _, cf := range n.callees {
				cn := nodes[cf]
				if cn.all && !n.all {
					n.all = true
					changed = true
				}
				for v := range cn.vars {
					if !n.vars[v] {
						n.vars[v] = true
						changed = true
					}
				}
				for v := range cn.fresh {
					if !n.fresh[v] {
						n.fresh[v] = true
						changed = true
					}
				}
			}
		}
	}
	for _, f := range order {
		n := nodes[f]
		eng.effMemo[f] = &effSet{vars: n.vars, fresh: n.fresh, all: n.all}
	}
	return eng.effMemo[fn]
}

// havocVars gives the listed heap variables (those in scope) fresh versions.
func (vc *VC) havocVars(st *State, vars, fresh map[string]bool) {
	old := st.clone()
	for _, name := range vc.heapOrder {
		if name == "CLK" || strings.HasPrefix(name, "Gh_") || strings.HasPrefix(name, "DF_") {
			continue
		}
		if vars[name] {
			st.heap[name] = vc.havocOne(old, name)
			continue
		}
		if fresh[name] && strings.HasPrefix(vc.heapSort[name], "(Array Ref ") {
			// Written only at references allocated during the call.  Nothing is
			// known about the array at references that were not yet allocated, so
			// keeping the same array is a sound over-approximation: objects that
			// existed keep their values, the callee's new objects have arbitrary
			// contents except what its ensures clauses state.
			continue
		} else if fresh[name] {
			st.heap[name] = vc.freshConst(name, vc.heapSort[name])
		}
	}
	nclk := vc.freshConst("CLK", "Int")
	vc.assume("(>= " + nclk + " " + old.heap["CLK"] + ")")
	st.heap["CLK"] = nclk
	vc.preserveLocals(old, st)
}

// havocImpls havocs the union of the write sets of the repository's
// implementations of an interface method (type contract `like-repo-implementations`).
func (vc *VC) havocImpls(st *State, iface *types.Named, m *types.Func, name string) bool {
	impls := vc.eng.implementations(iface, m)
	if len(impls) == 0 {
		return false
	}
	vars, fresh := map[string]bool{}, map[string]bool{}
	for _, f := range impls {
		es := vc.eng.inferredEffects(f)
		if es.all {
			return false
		}
		for v := range es.vars {
			vars[v] = true
		}
		for v := range es.fresh {
			fresh[v] = true
		}
	}
	vc.note("assumed: host implementations of " + name + " write no more than the repository's own implementations")
	vc.havocVars(st, vars, fresh)
	return true
}

// havocCallee havocs what callee may write (inferred), or everything.
func (vc *VC) havocCallee(st *State, callee *ssa.Function, name string) {
	if callee != nil && isRepoFunc(callee) && len(callee.Blocks) > 0 {
		es := vc.eng.inferredEffects(callee)
		if !es.all {
			vc.note("inferred write set used for " + name)
			vc.havocVars(st, es.vars, es.fresh)
			return
		}
	}
	vc.note("call havocs the whole heap (dynamic or unknown callees reachable): " + name)
	vc.havocAll(st, name)
}

// funcsWithSig: repository functions whose value is taken somewhere (closures
// and function values) and whose signature is identical to sig.
func (eng *Engine) funcsWithSig(sig *types.Signature) []*ssa.Function {
	if eng.addrTaken == nil {
		eng.addrTaken = map[*ssa.Function]bool{}
		for _, fn := range eng.repoFuncs() {
			for _, b := range fn.Blocks {
				for _, in := range b.Instrs {
					if mc, ok := in.(*ssa.MakeClosure); ok {
						if f, ok := mc.Fn.(*ssa.Function); ok {
							eng.addrTaken[f] = true
						}
					}
					for _, op := range in.Operands(nil) {
						if f, ok := (*op).(*ssa.Function); ok {
							if ci, isCall := in.(ssa.CallInstruction); isCall && ci.Common().Value == *op {
								continue
							}
							eng.addrTaken[f] = true
						}
					}
				}
			}
		}
	}
	var out []*ssa.Function
	for f := range eng.addrTaken {
		fs := f.Signature
		if fs.Recv() == nil && types.Identical(types.NewSignatureType(nil, nil, nil, fs.Params(), fs.Results(), fs.Variadic()), types.NewSignatureType(nil, nil, nil, sig.Params(), sig.Results(), sig.Variadic())) {
			out = append(out, f)
		}
	}
	return out
}

// implementations: methods named m.Name() of every repository type that
// implements the (unexported) interface iface.
func (eng *Engine) implementations(iface *types.Named, m *types.Func) []*ssa.Function {
	it, ok := iface.Underlying().(*types.Interface)
	if !ok {
		return nil
	}
	var out []*ssa.Function
	for _, sp := range eng.spkgs {
		if !strings.HasPrefix(sp.Pkg.Path(), repoPrefix) {
			continue
		}
		for _, mem := range sp.Members {
			tm, ok := mem.(*ssa.Type)
			if !ok {
				continue
			}
			for _, t := range []types.Type{tm.Type(), types.NewPointer(tm.Type())} {
				if _, isI := t.Underlying().(*types.Interface); isI {
					continue
				}
				if !types.Implements(t, it) {
					continue
				}
				sel := eng.prog.MethodSets.MethodSet(t).Lookup(m.Pkg(), m.Name())
				if sel == nil {
					continue
				}
				if f := eng.prog.MethodValue(sel); f != nil {
					out = append(out, f)
				}
			}
		}
	}
	return out
}

// freshBase: the object a store writes to was allocated during the current
// call — directly, or by a callee that returns only objects it allocated.
func (eng *Engine) freshBase(addr ssa.Value, depth int) bool {
	if depth > 6 {
		return false
	}
	switch x := addr.(type) {
	case *ssa.Alloc:
		return true
	case *ssa.FieldAddr:
		return eng.freshBase(x.X, depth+1)
	case *ssa.IndexAddr:
		return eng.freshBase(x.X, depth+1)
	case *ssa.MakeSlice, *ssa.MakeMap:
		return true
	case *ssa.Slice:
		return eng.freshBase(x.X, depth+1)
	case *ssa.Phi:
		for _, e := range x.Edges {
			if e == ssa.Value(x) {
				continue
			}
			if !eng.freshBase(e, depth+1) {
				return false
			}
		}
		return len(x.Edges) > 0
	case *ssa.Call:
		c := x.Call.StaticCallee()
		return c != nil && eng.returnsFresh(c)
	case *ssa.Extract:
		if call, ok := x.Tuple.(*ssa.Call); ok {
			c := call.Call.StaticCallee()
			return c != nil && eng.returnsFreshAt(c, x.Index)
		}
	}
	return false
}

func (eng *Engine) returnsFresh(fn *ssa.Function) bool { return eng.returnsFreshAt(fn, 0) }

// returnsFreshAt: every value returned at result index idx is an object
// allocated by fn (or by a callee with the same property).
func (eng *Engine) returnsFreshAt(fn *ssa.Function, idx int) bool {
	key := fmt.Sprintf("%p#%d", fn, idx)
	if v, ok := eng.freshMemo[key]; ok {
		return v
	}
	if eng.freshMemo == nil {
		eng.freshMemo = map[string]bool{}
	}
	eng.freshMemo[key] = false // cycles: not fresh
	if !isRepoFunc(fn) || len(fn.Blocks) == 0 {
		return false
	}
	ok := true
	n := 0
	for _, b := range fn.Blocks {
		for _, in := range b.Instrs {
			r, isRet := in.(*ssa.Return)
			if !isRet || idx >= len(r.Results) {
				continue
			}
			n++
			if !eng.freshBase(r.Results[idx], 1) {
				ok = false
			}
		}
	}
	eng.freshMemo[key] = ok && n > 0
	return ok && n > 0
}
