package main

import (
	"fmt"
	"go/ast"
	"go/parser"
	"go/token"
	"sort"
	"strconv"
	"strings"

	"golang.org/x/tools/go/packages"
)

// Contract syntax: see DESIGN.md Appendix B.  Contracts live in
// /repo/**/zz_contracts_verif.go as //@ comment lines.

type Clause struct {
	Text string
	Expr ast.Expr
	Pos  string
	Tag  string // optional short label: `ensures [label] expr`
}

type LoopSpec struct {
	Ord        int
	Var        string
	Invariants []Clause
	Decreases  *Clause
}

type AssertAt struct {
	Callee string // callee name as printed by ssa (suffix match)
	Nth    int    // 0 = every occurrence, k>0 = k-th occurrence
	Clause Clause
	Assume bool // assume-at: an explicitly trusted fact at the call site (listed in evidence)
}

type Contract struct {
	Target   string
	PkgPath  string
	Pos      string
	Requires []Clause
	Ensures  []Clause
	OnPanic  []Clause
	Panics   []Clause // panics-when
	Modifies []string
	ModSet   bool
	Loops    map[int]*LoopSpec
	Asserts  []AssertAt
	Ghosts   map[string]string
	Inline   bool
	Pure     bool
	NoPanic  bool
	Keeps    []string // Type.flag: flagged objects keep all their fields (and slice elements)
	Trusted  string
	Props    []string
	Strings  string
	Owned    []string
	NoSweep  bool
	RepoImpls bool // interface method: host implementations are assumed to write no more than the repository's own implementations
	ResultFuncPure bool // the func value returned modifies nothing when called (assumed)
	Uses     []string // axioms assumed at entry
	Counts   []CountSpec
	IsType   bool // functype contract
}

// CountSpec: `counts name callee` — ghost counter incremented at every call to callee.
type CountSpec struct {
	Ghost  string
	Callee string
}

type Pred struct {
	PkgPath string // package whose names the body is written against
	Name   string
	Params []string
	Expr   ast.Expr
	Text   string
}

type FrameSpec struct {
	Within  []string // package paths (relative to the repo) the scan is limited to
	Kind    string // writers | readers | callers
	Sel     string // Type.field or function target
	Allowed []string
	Props   []string
	Pos     string
	PkgPath string
	Text    string
}

type LemmaSpec struct {
	Name    string
	Vars    []string // "x:Int" style binders
	Expr    ast.Expr
	Text    string
	Props   []string
	Pos     string
	PkgPath string
}

type AxiomSpec struct {
	Name    string
	Expr    ast.Expr
	Text    string
	PkgPath string
	Pos     string
}

type RangeSpec struct {
	Sel     string // Type.field
	Lo, Hi  string
	PkgPath string
	Pos     string
}

type ImmutableSpec struct {
	AuditOnly bool
	Except  []string // functions whose stores were inspected by hand (listed as assumption)
	Sel     string
	PkgPath string
	Pos     string
	Props   []string
}

type ContractSet struct {
	MapRangeExempt map[string]string // function (short name) -> reason
	GlobalWriters  map[string]string // "pkg.var <- writer" -> reason
	Immutable []*ImmutableSpec
	Ranges []*RangeSpec
	GhostNames map[string]bool
	Axioms   map[string]*AxiomSpec
	ByTarget map[string]*Contract // key: pkgpath + "::" + target
	Types    map[string]*Contract // functype contracts, key pkgpath::TypeName
	Preds    map[string]*Pred
	TypeInvs map[string]string // pkgpath.Type -> pred name
	Frames   []*FrameSpec
	Lemmas   []*LemmaSpec
	Files    []string
	Errors   []string
}

var clauseKeywords = map[string]bool{
	"requires": true, "ensures": true, "ensures-on-panic": true, "panics-when": true,
	"nopanic": true, "keeps": true, "modifies": true, "loop": true, "assert-at": true, "assume-at": true, "ghost": true,
	"inline": true, "pure": true, "trusted": true, "property": true, "strings": true,
	"owned": true, "nosweep": true, "counts": true, "uses": true, "result-func-pure": true, "like-repo-implementations": true,
}

func loadContracts(pkgs []*packages.Package) *ContractSet {
	cs := &ContractSet{ByTarget: map[string]*Contract{}, Types: map[string]*Contract{}, Preds: map[string]*Pred{}, Axioms: map[string]*AxiomSpec{}, GhostNames: map[string]bool{}}
	seen := map[string]bool{}
	var visit func(p *packages.Package)
	visit = func(p *packages.Package) {
		if seen[p.PkgPath] {
			return
		}
		seen[p.PkgPath] = true
		for i, f := range p.Syntax {
			name := p.CompiledGoFiles[i]
			if !strings.HasSuffix(name, "zz_contracts_verif.go") {
				continue
			}
			cs.Files = append(cs.Files, name)
			cs.parseFile(p, f, name)
		}
	}
	packages.Visit(pkgs, nil, func(p *packages.Package) { visit(p) })
	return cs
}

func (cs *ContractSet) errf(pos string, f string, a ...any) {
	cs.Errors = append(cs.Errors, pos+": "+fmt.Sprintf(f, a...))
}

type rawLine struct {
	text string
	pos  string
}

func (cs *ContractSet) parseFile(p *packages.Package, f *ast.File, fname string) {
	var lines []rawLine
	for _, cg := range f.Comments {
		for _, c := range cg.List {
			if !strings.HasPrefix(c.Text, "//@") {
				continue
			}
			t := strings.TrimSpace(c.Text[3:])
			// strip trailing `// comment`
			if i := strings.Index(t, " // "); i >= 0 {
				t = strings.TrimSpace(t[:i])
			}
			if t == "" {
				continue
			}
			pos := p.Fset.Position(c.Pos())
			lines = append(lines, rawLine{t, fmt.Sprintf("%s:%d", shortFile(pos.Filename), pos.Line)})
		}
	}
	// join continuation lines
	var items []rawLine
	for _, l := range lines {
		w := firstWord(l.text)
		if w == "func" || w == "functype" || w == "pred" || w == "frame" || w == "lemma" || w == "axiom" || w == "assume-range" || w == "typeinv" || w == "immutable" || w == "maprange-exempt" || w == "global-writer" || clauseKeywords[w] {
			items = append(items, l)
		} else if len(items) > 0 {
			items[len(items)-1].text += " " + l.text
		} else {
			cs.errf(l.pos, "stray contract line %q", l.text)
		}
	}
	var cur *Contract
	for _, it := range items {
		w := firstWord(it.text)
		rest := strings.TrimSpace(it.text[len(w):])
		switch w {
		case "func", "functype":
			cur = &Contract{Target: rest, PkgPath: p.PkgPath, Pos: it.pos, Loops: map[int]*LoopSpec{}, Ghosts: map[string]string{}}
			key := p.PkgPath + "::" + rest
			if w == "functype" {
				cur.IsType = true
				cs.Types[key] = cur
			} else {
				if _, dup := cs.ByTarget[key]; dup {
					cs.errf(it.pos, "duplicate contract for %s", rest)
				}
				cs.ByTarget[key] = cur
			}
		case "pred":
			// pred name(a, b) = expr
			eq := strings.Index(rest, "=")
			lp := strings.Index(rest, "(")
			rp := strings.Index(rest, ")")
			if eq < 0 || lp < 0 || rp < 0 || rp > eq {
				cs.errf(it.pos, "bad pred %q", rest)
				continue
			}
			name := strings.TrimSpace(rest[:lp])
			var params []string
			for _, s := range strings.Split(rest[lp+1:rp], ",") {
				if s = strings.TrimSpace(s); s != "" {
					params = append(params, s)
				}
			}
			txt := strings.TrimSpace(rest[eq+1:])
			e, err := parseSpecExpr(txt)
			if err != nil {
				cs.errf(it.pos, "pred %s: %v", name, err)
				continue
			}
			cs.Preds[name] = &Pred{Name: name, Params: params, Expr: e, Text: txt, PkgPath: p.PkgPath}
		case "frame":
			fs := parseFrame(rest)
			if fs == nil {
				cs.errf(it.pos, "bad frame %q", rest)
				continue
			}
			fs.Pos = it.pos
			fs.PkgPath = p.PkgPath
			fs.Text = rest
			cs.Frames = append(cs.Frames, fs)
		case "global-writer":
			// global-writer pkg.var <- writer : reason
			f := strings.SplitN(rest, ":", 2)
			if cs.GlobalWriters == nil {
				cs.GlobalWriters = map[string]string{}
			}
			reason := ""
			if len(f) == 2 {
				reason = strings.TrimSpace(f[1])
			}
			cs.GlobalWriters[strings.Join(strings.Fields(f[0]), " ")] = reason
		case "maprange-exempt":
			f := strings.SplitN(rest, " ", 2)
			if len(f) == 2 {
				if cs.MapRangeExempt == nil {
					cs.MapRangeExempt = map[string]string{}
				}
				cs.MapRangeExempt[f[0]] = f[1]
			}
		case "immutable":
			// immutable Type.field [property ...]: written only while its object is fresh
			f := strings.Fields(rest)
			if len(f) < 1 {
				cs.errf(it.pos, "immutable Type.field")
				continue
			}
			im := &ImmutableSpec{Sel: f[0], PkgPath: p.PkgPath, Pos: it.pos}
			rest2 := f[1:]
			for len(rest2) > 0 {
				switch rest2[0] {
				case "property":
					j := 1
					for j < len(rest2) && rest2[j] != "except" {
						im.Props = append(im.Props, rest2[j])
						j++
					}
					rest2 = rest2[j:]
				case "except":
					j := 1
					for j < len(rest2) && rest2[j] != "property" {
						im.Except = append(im.Except, strings.Trim(rest2[j], ","))
						j++
					}
					rest2 = rest2[j:]
				case "audit-only":
					// the frame obligation only: the listed exceptions DO write
					// existing objects, so the field is re-versioned like any other
					im.AuditOnly = true
					rest2 = rest2[1:]
				default:
					rest2 = rest2[1:]
				}
			}
			cs.Immutable = append(cs.Immutable, im)
		case "typeinv":
			// typeinv Type pred : every non-nil *Type value the code reads satisfies
			// pred(value) in the state it is read in (an assumed data-structure
			// invariant, listed in the evidence)
			f := strings.Fields(rest)
			if len(f) != 2 {
				cs.errf(it.pos, "typeinv Type pred")
				continue
			}
			if cs.TypeInvs == nil {
				cs.TypeInvs = map[string]string{}
			}
			cs.TypeInvs[p.PkgPath+"."+f[0]] = f[1]
		case "assume-range":
			// assume-range Type.field lo hi : every value read from the field lies in [lo, hi)
			f := strings.Fields(rest)
			if len(f) != 3 {
				cs.errf(it.pos, "assume-range Type.field lo hi")
				continue
			}
			cs.Ranges = append(cs.Ranges, &RangeSpec{Sel: f[0], Lo: f[1], Hi: f[2], PkgPath: p.PkgPath, Pos: it.pos})
		case "axiom":
			// axiom name : expr   (an assumed fact; listed in every evidence file that uses it)
			ci := strings.Index(rest, ":")
			if ci < 0 {
				cs.errf(it.pos, "bad axiom %q", rest)
				continue
			}
			name := strings.TrimSpace(rest[:ci])
			txt := strings.TrimSpace(rest[ci+1:])
			e, err := parseSpecExpr(txt)
			if err != nil {
				cs.errf(it.pos, "axiom %s: %v", name, err)
				continue
			}
			cs.Axioms[name] = &AxiomSpec{Name: name, Expr: e, Text: txt, PkgPath: p.PkgPath, Pos: it.pos}
		case "lemma":
			lm := parseLemma(rest)
			if lm == nil {
				cs.errf(it.pos, "bad lemma %q", rest)
				continue
			}
			lm.Pos = it.pos
			lm.PkgPath = p.PkgPath
			cs.Lemmas = append(cs.Lemmas, lm)
		default:
			if cur == nil {
				cs.errf(it.pos, "clause outside func: %q", it.text)
				continue
			}
			cs.parseClause(cur, w, rest, it.pos)
		}
	}
}

func shortFile(f string) string {
	return strings.TrimPrefix(f, "/repo/")
}

func firstWord(s string) string {
	if i := strings.IndexAny(s, " \t"); i >= 0 {
		return s[:i]
	}
	return s
}

func mkClause(cs *ContractSet, text, pos string) (Clause, bool) {
	tag := ""
	t := strings.TrimSpace(text)
	if strings.HasPrefix(t, "[") {
		if j := strings.Index(t, "]"); j > 0 {
			tag = t[1:j]
			t = strings.TrimSpace(t[j+1:])
		}
	}
	e, err := parseSpecExpr(t)
	if err != nil {
		cs.errf(pos, "cannot parse %q: %v", t, err)
		return Clause{}, false
	}
	return Clause{Text: t, Expr: e, Pos: pos, Tag: tag}, true
}

func (cs *ContractSet) parseClause(c *Contract, kw, rest, pos string) {
	switch kw {
	case "requires":
		if cl, ok := mkClause(cs, rest, pos); ok {
			c.Requires = append(c.Requires, cl)
		}
	case "ensures":
		if cl, ok := mkClause(cs, rest, pos); ok {
			c.Ensures = append(c.Ensures, cl)
		}
	case "ensures-on-panic":
		if cl, ok := mkClause(cs, rest, pos); ok {
			c.OnPanic = append(c.OnPanic, cl)
		}
	case "panics-when":
		if cl, ok := mkClause(cs, rest, pos); ok {
			c.Panics = append(c.Panics, cl)
		}
	case "nopanic":
		c.NoPanic = true
	case "keeps":
		// keeps Type.flag : objects whose flag was set at entry keep every field
		c.Keeps = append(c.Keeps, strings.Fields(rest)...)
	case "inline":
		c.Inline = true
	case "pure":
		c.Pure = true
	case "nosweep":
		c.NoSweep = true
	case "result-func-pure":
		c.ResultFuncPure = true
	case "like-repo-implementations":
		c.RepoImpls = true
	case "uses":
		c.Uses = append(c.Uses, strings.Fields(strings.ReplaceAll(rest, ",", " "))...)
	case "trusted":
		c.Trusted = rest
		if c.Trusted == "" {
			c.Trusted = "(no reason given)"
		}
	case "property":
		c.Props = append(c.Props, strings.Fields(rest)...)
	case "strings":
		c.Strings = rest
	case "owned":
		for _, s := range strings.Split(rest, ",") {
			c.Owned = append(c.Owned, strings.TrimSpace(s))
		}
	case "ghost":
		// ghost name : type
		parts := strings.SplitN(rest, ":", 2)
		if len(parts) == 2 {
			c.Ghosts[strings.TrimSpace(parts[0])] = strings.TrimSpace(parts[1])
			cs.GhostNames[strings.TrimSpace(parts[0])] = true
		}
	case "counts":
		f := strings.Fields(rest)
		if len(f) != 2 {
			cs.errf(pos, "counts <ghost> <callee>")
			return
		}
		c.Counts = append(c.Counts, CountSpec{Ghost: f[0], Callee: f[1]})
	case "modifies":
		c.ModSet = true
		for _, s := range strings.Split(rest, ",") {
			s = strings.TrimSpace(s)
			if s != "" && s != "nothing" {
				c.Modifies = append(c.Modifies, s)
			}
		}
	case "loop":
		// loop N (var) invariant expr | decreases expr
		f := strings.Fields(rest)
		if len(f) < 4 {
			cs.errf(pos, "bad loop clause %q", rest)
			return
		}
		n, err := strconv.Atoi(f[0])
		if err != nil {
			cs.errf(pos, "bad loop ordinal %q", f[0])
			return
		}
		v := strings.Trim(f[1], "()")
		kind := f[2]
		idx := strings.Index(rest, kind)
		body := strings.TrimSpace(rest[idx+len(kind):])
		ls := c.Loops[n]
		if ls == nil {
			ls = &LoopSpec{Ord: n, Var: v}
			c.Loops[n] = ls
		}
		if ls.Var != v {
			cs.errf(pos, "loop %d named both %s and %s", n, ls.Var, v)
		}
		cl, ok := mkClause(cs, body, pos)
		if !ok {
			return
		}
		switch kind {
		case "invariant":
			ls.Invariants = append(ls.Invariants, cl)
		case "decreases":
			ls.Decreases = &cl
		default:
			cs.errf(pos, "bad loop clause kind %q", kind)
		}
	case "assert-at", "assume-at":
		f := strings.Fields(rest)
		if len(f) < 2 {
			cs.errf(pos, "bad assert-at")
			return
		}
		callee := f[0]
		nth := 0
		if i := strings.Index(callee, "#"); i >= 0 {
			nth, _ = strconv.Atoi(callee[i+1:])
			callee = callee[:i]
		}
		body := strings.TrimSpace(rest[len(f[0]):])
		if cl, ok := mkClause(cs, body, pos); ok {
			c.Asserts = append(c.Asserts, AssertAt{Callee: callee, Nth: nth, Clause: cl, Assume: kw == "assume-at"})
		}
	}
}

func parseFrame(rest string) *FrameSpec {
	// writers(CallStack.Frames) subset { a, b } [property C04]
	lp := strings.Index(rest, "(")
	if lp < 0 {
		return nil
	}
	kind := strings.TrimSpace(rest[:lp])
	// find matching paren
	d := 0
	rp := -1
	for i := lp; i < len(rest); i++ {
		if rest[i] == '(' {
			d++
		} else if rest[i] == ')' {
			d--
			if d == 0 {
				rp = i
				break
			}
		}
	}
	if rp < 0 {
		return nil
	}
	sel := strings.TrimSpace(rest[lp+1 : rp])
	tail := rest[rp+1:]
	lb := strings.Index(tail, "{")
	rb := strings.LastIndex(tail, "}")
	if lb < 0 || rb < lb {
		return nil
	}
	fs := &FrameSpec{Kind: kind, Sel: sel}
	for _, s := range strings.Split(tail[lb+1:rb], ",") {
		if s = strings.TrimSpace(s); s != "" {
			fs.Allowed = append(fs.Allowed, s)
		}
	}
	after := strings.TrimSpace(tail[rb+1:])
	if strings.HasPrefix(after, "within") {
		rest := strings.TrimSpace(after[len("within"):])
		w := rest
		if i := strings.Index(rest, " property"); i >= 0 {
			w = rest[:i]
			after = strings.TrimSpace(rest[i:])
		} else {
			after = ""
		}
		for _, p := range strings.Split(w, ",") {
			if p = strings.TrimSpace(p); p != "" {
				fs.Within = append(fs.Within, p)
			}
		}
	}
	if strings.HasPrefix(after, "property") {
		fs.Props = strings.Fields(after[len("property"):])
	}
	sort.Strings(fs.Allowed)
	return fs
}

func parseLemma(rest string) *LemmaSpec {
	// lemma name (x:Int, y:Int) : expr [property Cnn]
	colon := -1
	d := 0
	for i := 0; i < len(rest); i++ {
		switch rest[i] {
		case '(':
			d++
		case ')':
			d--
		case ':':
			if d == 0 && colon < 0 {
				colon = i
			}
		}
	}
	if colon < 0 {
		return nil
	}
	head := strings.TrimSpace(rest[:colon])
	body := strings.TrimSpace(rest[colon+1:])
	lm := &LemmaSpec{}
	if i := strings.Index(head, "("); i >= 0 {
		lm.Name = strings.TrimSpace(head[:i])
		for _, s := range strings.Split(strings.Trim(head[i:], "()"), ",") {
			if s = strings.TrimSpace(s); s != "" {
				lm.Vars = append(lm.Vars, s)
			}
		}
	} else {
		lm.Name = head
	}
	if i := strings.LastIndex(body, " property "); i >= 0 {
		lm.Props = strings.Fields(body[i+len(" property "):])
		body = strings.TrimSpace(body[:i])
	}
	e, err := parseSpecExpr(body)
	if err != nil {
		return nil
	}
	lm.Expr = e
	lm.Text = body
	return lm
}

// parseSpecExpr rewrites the extensions (==>, <==>) into call syntax and
// parses the result as a Go expression.
func parseSpecExpr(s string) (ast.Expr, error) {
	r := rewriteImplies(s)
	e, err := parser.ParseExprFrom(token.NewFileSet(), "", r, 0)
	if err != nil {
		return nil, fmt.Errorf("%v (after rewrite: %s)", err, r)
	}
	return e, nil
}

func rewriteImplies(s string) string {
	// 1. rewrite inside bracketed groups first
	var b strings.Builder
	i := 0
	for i < len(s) {
		c := s[i]
		if c == '"' || c == '`' || c == '\'' {
			j := i + 1
			for j < len(s) && s[j] != c {
				if s[j] == '\\' && c != '`' {
					j++
				}
				j++
			}
			if j >= len(s) {
				j = len(s) - 1
			}
			b.WriteString(s[i : j+1])
			i = j + 1
			continue
		}
		if c == '(' || c == '[' {
			closer := byte(')')
			if c == '[' {
				closer = ']'
			}
			d := 0
			j := i
			for ; j < len(s); j++ {
				if s[j] == '"' {
					k := j + 1
					for k < len(s) && s[k] != '"' {
						if s[k] == '\\' {
							k++
						}
						k++
					}
					j = k
					continue
				}
				if s[j] == c {
					d++
				} else if s[j] == closer {
					d--
					if d == 0 {
						break
					}
				}
			}
			if j >= len(s) {
				b.WriteString(s[i:])
				return b.String()
			}
			inner := s[i+1 : j]
			parts := splitTop(inner, ',')
			for k := range parts {
				parts[k] = rewriteImplies(parts[k])
			}
			b.WriteByte(c)
			b.WriteString(strings.Join(parts, ","))
			b.WriteByte(closer)
			i = j + 1
			continue
		}
		b.WriteByte(c)
		i++
	}
	t := b.String()
	// 2. top-level operators
	if k := indexTop(t, "<==>"); k >= 0 {
		return "iff(" + rewriteTop(t[:k]) + ", " + rewriteTop(t[k+4:]) + ")"
	}
	return rewriteTop(t)
}

func rewriteTop(t string) string {
	if k := indexTop(t, "<==>"); k >= 0 {
		return "iff(" + rewriteTop(t[:k]) + ", " + rewriteTop(t[k+4:]) + ")"
	}
	if k := indexTop(t, "==>"); k >= 0 {
		return "implies(" + strings.TrimSpace(t[:k]) + ", " + rewriteTop(t[k+3:]) + ")"
	}
	return strings.TrimSpace(t)
}

func indexTop(s, op string) int {
	d := 0
	for i := 0; i < len(s); i++ {
		switch s[i] {
		case '"':
			j := i + 1
			for j < len(s) && s[j] != '"' {
				if s[j] == '\\' {
					j++
				}
				j++
			}
			i = j
		case '(', '[', '{':
			d++
		case ')', ']', '}':
			d--
		default:
			if d == 0 && strings.HasPrefix(s[i:], op) {
				// do not match "<==>" when searching "==>"
				if op == "==>" && i > 0 && s[i-1] == '<' {
					continue
				}
				return i
			}
		}
	}
	return -1
}

func splitTop(s string, sep byte) []string {
	var out []string
	d := 0
	last := 0
	for i := 0; i < len(s); i++ {
		switch s[i] {
		case '"':
			j := i + 1
			for j < len(s) && s[j] != '"' {
				if s[j] == '\\' {
					j++
				}
				j++
			}
			i = j
		case '(', '[', '{':
			d++
		case ')', ']', '}':
			d--
		default:
			if s[i] == sep && d == 0 {
				out = append(out, s[last:i])
				last = i + 1
			}
		}
	}
	out = append(out, s[last:])
	return out
}
