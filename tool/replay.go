package main

import (
	"regexp"
	"strings"
)

var defFunRe = regexp.MustCompile(`\(define-fun (\|[^|]+\||\S+) \(\) (\S+|\([^)]*\))\s+`)

// parseModel extracts the values of the parameter constants (p_*, lv_*) and
// entry heap versions from a solver model (best effort, for the replay file).
func parseModel(out string) map[string]string {
	m := map[string]string{}
	idx := defFunRe.FindAllStringSubmatchIndex(out, -1)
	for k, loc := range idx {
		name := strings.Trim(out[loc[2]:loc[3]], "|")
		if !(strings.HasPrefix(name, "p_") || strings.HasPrefix(name, "lv_") || strings.HasPrefix(name, "fv_") || strings.HasSuffix(name, "@0")) {
			continue
		}
		end := len(out)
		if k+1 < len(idx) {
			end = idx[k+1][0]
		}
		val := strings.TrimSpace(out[loc[1]:end])
		val = strings.TrimSuffix(strings.TrimSpace(val), ")")
		if len(val) > 400 {
			val = val[:400] + "…"
		}
		m[name] = strings.Join(strings.Fields(val), " ")
	}
	return m
}

// concreteReplay tries to turn a counter-model into a failing run of the real
// code.  Implemented per function family in replay_*.go; returns nil info when
// no harness exists for the obligation's function.
func concreteReplay(prop string, it *Item, model map[string]string) (bool, map[string]any) {
	for _, h := range replayHarnesses {
		if ok, info := h(prop, it, model); info != nil {
			return ok, info
		}
	}
	return false, nil
}

var replayHarnesses []func(prop string, it *Item, model map[string]string) (bool, map[string]any)

func rerunConcrete(cr map[string]any) int { return 1 }
