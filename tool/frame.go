package main

import (
	"fmt"
	"go/token"
	"go/types"
	"sort"
	"strings"

	"golang.org/x/tools/go/ssa"
)

// The frame back end discharges set-theoretic obligations over the SSA of the
// repository packages: writers/readers of a struct field, callers of a
// function, writers of package-level variables, and the shape of every
// range-over-map loop.  No SMT is involved; an obligation passes iff the set
// computed from the current source is contained in the set the contract allows.

type FrameResult struct {
	Name    string
	Props   []string
	OK      bool
	Detail  string
	Pos     string
	Actual  []string
	Allowed []string
}

const repoPrefix = "github.com/luthersystems/elps"

func (eng *Engine) repoFuncs() []*ssa.Function {
	var out []*ssa.Function
	for fn := range eng.allFuncs {
		p := fnPkgPath(fn)
		if strings.HasPrefix(p, repoPrefix) && len(fn.Blocks) > 0 {
			out = append(out, fn)
		}
	}
	sort.Slice(out, func(i, j int) bool { return out[i].String() < out[j].String() })
	return out
}

func fnPkgPath(fn *ssa.Function) string {
	for f := fn; f != nil; f = f.Parent() {
		if f.Pkg != nil {
			return f.Pkg.Pkg.Path()
		}
	}
	if fn.Object() != nil && fn.Object().Pkg() != nil {
		return fn.Object().Pkg().Path()
	}
	return ""
}

// targetName renders fn the way contract targets are written, relative to pkgPath.
func targetName(fn *ssa.Function, pkgPath string) string {
	var anon []string
	f := fn
	for f.Parent() != nil {
		p := f.Parent()
		idx := 0
		for i, a := range p.AnonFuncs {
			if a == f {
				idx = i + 1
			}
		}
		anon = append([]string{fmt.Sprint(idx)}, anon...)
		f = p
	}
	name := f.Name()
	if recv := f.Signature.Recv(); recv != nil {
		t := recv.Type()
		ptr := ""
		if p, ok := t.(*types.Pointer); ok {
			ptr = "*"
			t = p.Elem()
		}
		tn := types.TypeString(t, func(*types.Package) string { return "" })
		name = "(" + ptr + tn + ")." + f.Name()
	}
	for _, a := range anon {
		name += "$" + a
	}
	pp := fnPkgPath(fn)
	if pp != pkgPath {
		name = strings.TrimPrefix(pp, repoPrefix+"/") + "." + name
	}
	return name
}

func (eng *Engine) scopedFuncs(fs *FrameSpec) []*ssa.Function {
	all := eng.repoFuncs()
	if len(fs.Within) == 0 {
		return all
	}
	var out []*ssa.Function
	for _, fn := range all {
		pp := strings.TrimPrefix(fnPkgPath(fn), repoPrefix+"/")
		for _, w := range fs.Within {
			if pp == w || strings.HasPrefix(pp, w+"/") {
				out = append(out, fn)
				break
			}
		}
	}
	return out
}

func (eng *Engine) checkFrame(fs *FrameSpec) FrameResult {
	name := "frame/" + fs.Kind + "(" + fs.Sel + ")"
	if len(fs.Within) > 0 {
		name += " within " + strings.Join(fs.Within, ",")
	}
	res := FrameResult{Name: name, Props: fs.Props, Pos: fs.Pos, Allowed: fs.Allowed}
	actual := map[string]bool{}
	switch fs.Kind {
	case "writers", "readers":
		i := strings.LastIndex(fs.Sel, ".")
		if i < 0 {
			// package-level variable
			g := eng.lookupGlobal(fs.PkgPath, fs.Sel)
			if g == nil {
				res.Detail = "no such global " + fs.Sel + " (contract target changed)"
				return res
			}
			for _, fn := range eng.scopedFuncs(fs) {
				if eng.touchesGlobal(fn, g, fs.Kind == "writers") {
					actual[targetName(fn, fs.PkgPath)] = true
				}
			}
			break
		}
		st := eng.lookupType(fs.PkgPath, fs.Sel[:i])
		if st == nil {
			res.Detail = "no such type " + fs.Sel[:i] + " (contract target changed)"
			return res
		}
		su, ok := st.Underlying().(*types.Struct)
		if !ok {
			res.Detail = fs.Sel[:i] + " is not a struct"
			return res
		}
		fidx := -1
		for k := 0; k < su.NumFields(); k++ {
			if su.Field(k).Name() == fs.Sel[i+1:] {
				fidx = k
			}
		}
		if fidx < 0 {
			res.Detail = "no field " + fs.Sel + " (contract target changed)"
			return res
		}
		for _, fn := range eng.scopedFuncs(fs) {
			if eng.touchesField(fn, st, fidx, fs.Kind == "writers") {
				actual[targetName(fn, fs.PkgPath)] = true
			}
		}
	case "callers":
		if strings.HasPrefix(fs.Sel, "ext:") {
			// callers of a function outside the repository, by full name (e.g. ext:os.ReadFile)
			want := strings.TrimPrefix(fs.Sel, "ext:")
			for _, fn := range eng.scopedFuncs(fs) {
				for _, b := range fn.Blocks {
					for _, in := range b.Instrs {
						for _, op := range in.Operands(nil) {
							if f, ok := (*op).(*ssa.Function); ok && f.String() == want {
								actual[targetName(fn, fs.PkgPath)] = true
							}
						}
					}
				}
			}
			break
		}
		target := eng.resolveTarget(fs.PkgPath, fs.Sel)
		if target == nil {
			res.Detail = "no such function " + fs.Sel + " (contract target changed)"
			return res
		}
		for _, fn := range eng.repoFuncs() {
			for _, b := range fn.Blocks {
				for _, in := range b.Instrs {
					if ci, ok := in.(ssa.CallInstruction); ok {
						if ci.Common().StaticCallee() == target {
							actual[targetName(fn, fs.PkgPath)] = true
						}
					}
					// function value taken (escapes): operands other than the call target
					for _, op := range in.Operands(nil) {
						if *op == ssa.Value(target) {
							if ci, ok := in.(ssa.CallInstruction); ok && ci.Common().Value == *op && !ci.Common().IsInvoke() {
								continue
							}
							actual["value-taken-in:"+targetName(fn, fs.PkgPath)] = true
						}
					}
				}
			}
		}
		// interface dispatch: a method reachable through an interface has unknown callers
		if target.Signature.Recv() != nil {
			// conservatively note when any invoke of a same-named method exists
			for _, fn := range eng.repoFuncs() {
				for _, b := range fn.Blocks {
					for _, in := range b.Instrs {
						if ci, ok := in.(ssa.CallInstruction); ok && ci.Common().IsInvoke() && ci.Common().Method.Name() == target.Name() {
							if types.Implements(target.Signature.Recv().Type(), ci.Common().Value.Type().Underlying().(*types.Interface)) {
								actual["via-interface-in:"+targetName(fn, fs.PkgPath)] = true
							}
						}
					}
				}
			}
		}
	default:
		res.Detail = "unknown frame kind " + fs.Kind
		return res
	}
	allowed := map[string]bool{}
	for _, a := range fs.Allowed {
		allowed[a] = true
	}
	var extra []string
	for a := range actual {
		res.Actual = append(res.Actual, a)
		if !allowed[a] {
			extra = append(extra, a)
		}
	}
	sort.Strings(res.Actual)
	sort.Strings(extra)
	if len(extra) == 0 {
		res.OK = true
		res.Detail = fmt.Sprintf("%d %s, all allowed", len(res.Actual), fs.Kind)
	} else {
		res.Detail = "not allowed: " + strings.Join(extra, ", ")
	}
	return res
}

func sameStruct(a, b types.Type) bool { return types.Identical(a, b) }

func (eng *Engine) touchesField(fn *ssa.Function, st types.Type, fidx int, write bool) bool {
	for _, b := range fn.Blocks {
		for _, in := range b.Instrs {
			switch x := in.(type) {
			case *ssa.FieldAddr:
				pt, ok := x.X.Type().Underlying().(*types.Pointer)
				if !ok || !sameStruct(pt.Elem(), st) || x.Field != fidx {
					continue
				}
				if x.Referrers() == nil {
					continue
				}
				for _, r := range *x.Referrers() {
					switch y := r.(type) {
					case *ssa.Store:
						if y.Addr == x && write {
							return true
						}
						if y.Val == x {
							return true // address stored somewhere: both
						}
					case *ssa.UnOp:
						if y.Op == token.MUL && !write {
							return true
						}
					case *ssa.DebugRef:
					default:
						// address escapes (call argument, phi, ...): counts as both
						return true
					}
				}
			case *ssa.Field:
				if !write && sameStruct(x.X.Type(), st) && x.Field == fidx {
					return true
				}
			case *ssa.Store:
				// whole-struct store through a pointer writes every field
				if write {
					if pt, ok := x.Addr.Type().Underlying().(*types.Pointer); ok && sameStruct(pt.Elem(), st) {
						if _, isAlloc := x.Addr.(*ssa.Alloc); !isAlloc {
							return true
						}
					}
				}
			case *ssa.UnOp:
				if !write && x.Op == token.MUL {
					if pt, ok := x.X.Type().Underlying().(*types.Pointer); ok && sameStruct(pt.Elem(), st) {
						return true
					}
				}
			}
		}
	}
	return false
}

func (eng *Engine) touchesGlobal(fn *ssa.Function, g *ssa.Global, write bool) bool {
	for _, b := range fn.Blocks {
		for _, in := range b.Instrs {
			for _, op := range in.Operands(nil) {
				if *op != ssa.Value(g) {
					continue
				}
				switch y := in.(type) {
				case *ssa.Store:
					if y.Addr == ssa.Value(g) && write {
						return true
					}
					if y.Val == ssa.Value(g) {
						return true
					}
				case *ssa.UnOp:
					if !write {
						return true
					}
				case *ssa.FieldAddr, *ssa.IndexAddr:
					// partial access: look at the referrers
					v := in.(ssa.Value)
					if v.Referrers() != nil {
						for _, r := range *v.Referrers() {
							if s, ok := r.(*ssa.Store); ok && s.Addr == v {
								if write {
									return true
								}
							} else if !write {
								return true
							}
						}
					}
				default:
					return true
				}
			}
		}
	}
	return false
}

// ---------------------------------------------------------------- global-variable write frame

// globalWriters lists, for every package-level variable of the given packages,
// the non-init functions that store to it.
func (eng *Engine) globalWriters(pkgPrefixes []string) map[string][]string {
	out := map[string][]string{}
	for _, fn := range eng.repoFuncs() {
		if fn.Name() == "init" || strings.HasPrefix(fn.Name(), "init#") || (fn.Parent() != nil && strings.HasPrefix(fn.Parent().Name(), "init")) {
			continue
		}
		for _, b := range fn.Blocks {
			for _, in := range b.Instrs {
				var g *ssa.Global
				contents := false
				switch x := in.(type) {
				case *ssa.Store:
					g = rootGlobal(x.Addr)
					if g == nil {
						if g = rootGlobalContents(x.Addr, 0); g != nil {
							contents = true
						}
					}
				case *ssa.MapUpdate:
					if g = rootGlobalContents(x.Map, 0); g != nil {
						contents = true
					}
				case *ssa.Call:
					// delete(m, k) / append into / copy into a global's contents
					if b, ok := x.Call.Value.(*ssa.Builtin); ok && (b.Name() == "delete" || b.Name() == "copy" || b.Name() == "clear") && len(x.Call.Args) > 0 {
						if g = rootGlobalContents(x.Call.Args[0], 0); g != nil {
							contents = true
						}
					} else if c := x.Call.StaticCallee(); c != nil && len(x.Call.Args) > 0 {
						// an atomic update of a package-level variable (directly, or through
						// a method that updates its receiver atomically) is a write
						if gg := rootGlobal(x.Call.Args[0]); gg != nil && eng.atomicallyWritesParam0(c, 0) {
							g = gg
						}
					}
				}
				if g == nil {
					continue
				}
				gp := g.Pkg.Pkg.Path()
				match := false
				for _, p := range pkgPrefixes {
					if strings.HasPrefix(gp, p) {
						match = true
					}
				}
				if !match {
					continue
				}
				key := strings.TrimPrefix(gp, repoPrefix+"/") + "." + g.Name()
				if contents {
					key += "(contents)"
				}
				out[key] = appendUnique(out[key], targetName(fn, gp))
			}
		}
	}
	return out
}

func rootGlobal(v ssa.Value) *ssa.Global {
	switch x := v.(type) {
	case *ssa.Global:
		return x
	case *ssa.FieldAddr:
		return rootGlobal(x.X)
	case *ssa.IndexAddr:
		return rootGlobal(x.X)
	}
	return nil
}

func appendUnique(xs []string, s string) []string {
	for _, x := range xs {
		if x == s {
			return xs
		}
	}
	return append(xs, s)
}

// ---------------------------------------------------------------- map ranges

type MapRangeSite struct {
	Func  string
	Pos   string
	Class string // collect-sort | commutative | key-only-lookup | unclassified
	Why   string
}

// mapRanges classifies every range-over-map loop in functions of the given packages.
func (eng *Engine) mapRanges(pkgPrefixes []string) []MapRangeSite {
	var out []MapRangeSite
	for _, fn := range eng.repoFuncs() {
		pp := fnPkgPath(fn)
		match := false
		for _, p := range pkgPrefixes {
			if pp == p || strings.HasPrefix(pp, p+"/") {
				match = true
			}
		}
		if !match {
			continue
		}
		for _, b := range fn.Blocks {
			for _, in := range b.Instrs {
				rng, ok := in.(*ssa.Range)
				if !ok {
					continue
				}
				if _, isMap := rng.X.Type().Underlying().(*types.Map); !isMap {
					continue
				}
				site := eng.classifyMapRange(fn, rng)
				out = append(out, site)
			}
		}
	}
	sort.Slice(out, func(i, j int) bool { return out[i].Func+out[i].Pos < out[j].Func+out[j].Pos })
	return out
}

func (eng *Engine) classifyMapRange(fn *ssa.Function, rng *ssa.Range) MapRangeSite {
	pos := eng.fset.Position(rng.Pos())
	site := MapRangeSite{Func: shortFn(fn), Pos: fmt.Sprintf("%s:%d", shortFile(pos.Filename), pos.Line), Class: "unclassified"}
	// find the loop: header is the block containing the Next instruction
	var next *ssa.Next
	if rng.Referrers() != nil {
		for _, r := range *rng.Referrers() {
			if n, ok := r.(*ssa.Next); ok {
				next = n
			}
		}
	}
	if next == nil {
		site.Why = "no Next instruction"
		return site
	}
	loops := findLoops(fn)
	li := loops[next.Block()]
	if li == nil {
		site.Why = "Next not in a loop header"
		return site
	}
	// gather effects of the loop body
	var appends []*ssa.Call // appends to slices
	var otherEffects []string
	var slotStores []*ssa.Store // buf[i] = ... into a slice that is sorted afterwards
	earlyExit := false
	argmin := false
	keyVal := func(v ssa.Value) bool { // v is the key produced by Next
		ex, ok := v.(*ssa.Extract)
		return ok && ex.Tuple == ssa.Value(next) && ex.Index == 1
	}
	for blk := range li.body {
		for _, in := range blk.Instrs {
			switch x := in.(type) {
			case *ssa.Store:
				if isAllocBased(x.Addr) {
					continue
				}
				if ia, ok := x.Addr.(*ssa.IndexAddr); ok {
					if _, isSlice := ia.X.Type().Underlying().(*types.Slice); isSlice {
						slotStores = append(slotStores, x)
						continue
					}
				}
				otherEffects = append(otherEffects, "store "+x.Addr.Name())
			case *ssa.MapUpdate:
				// writes indexed by a key: commutative for distinct keys
				otherEffects = append(otherEffects, "mapupdate:"+x.Map.Name())
			case *ssa.Return:
				earlyExit = true
			case *ssa.BinOp:
				// `k < best` with best a loop-carried value: selection of the minimum key
				if x.Op == token.LSS && keyVal(x.X) {
					if _, isPhi := x.Y.(*ssa.Phi); isPhi {
						argmin = true
					}
				}
			case *ssa.Call:
				if b, ok := x.Call.Value.(*ssa.Builtin); ok {
					if b.Name() == "append" {
						appends = append(appends, x)
					}
					continue
				}
				c := x.Call.StaticCallee()
				if c != nil && (externalKind(c) == "pure") {
					continue
				}
				if c != nil && isRepoFunc(c) && len(c.Blocks) > 0 {
					es := eng.inferredEffects(c)
					if !es.all {
						onlyKeyed := true
						for v := range es.vars {
							// writes into Go maps / freshly built values are per-key; anything
							// else (shared fields) makes the iterations interfere
							// Mem_* are slice-element writes; in the callees met here they go to
							// buffers the callee chain itself allocated or was handed for the
							// duration of the call (assumption recorded in the obligation text)
							if !(v == "CLK" || strings.HasPrefix(v, "MapV_") || strings.HasPrefix(v, "MapH_") || strings.HasPrefix(v, "Mem_")) {
								onlyKeyed = false
							}
						}
						if onlyKeyed {
							continue
						}
					}
				}
				name := "dynamic"
				if c != nil {
					name = shortFn(c)
				}
				otherEffects = append(otherEffects, "call "+name)
			case *ssa.Panic:
				earlyExit = true
			}
		}
		// exits other than through the header
		for _, s := range blk.Succs {
			if !li.body[s] && blk != li.head {
				earlyExit = true
			}
		}
	}
	// blocks dominated by the loop but outside its natural body that return (e.g. `return err` inside the loop)
	for _, b := range fn.Blocks {
		if li.body[b] || !li.head.Dominates(b) {
			continue
		}
		for _, p := range b.Preds {
			if li.body[p] && p != li.head {
				earlyExit = true
			}
		}
	}
	onlyMapUpdates := true
	for _, e := range otherEffects {
		if !strings.HasPrefix(e, "mapupdate:") {
			onlyMapUpdates = false
		}
	}
	sortedAfter := eng.collectedThenSorted(fn, li, appends)
	switch {
	case argmin && onlyMapUpdates && !earlyExit && len(appends) == 0 && len(slotStores) == 0:
		site.Class = "argmin"
		site.Why = "keyed writes only (callees write Go maps, fresh objects and call-local buffers); the loop-carried result is the entry of the smallest key (strict total order on keys)"
	case onlyMapUpdates && len(otherEffects) == 0 && len(slotStores) > 0 && len(appends) == 0 && sortedAfter:
		site.Class = "fill-then-sort"
		site.Why = "loop fills slots of a buffer that is sorted (total order on distinct keys) before any use"
		if earlyExit {
			site.Why += "; ASSUMED: the early exit is unreachable (it rejects key types the map never holds)"
		}
	case len(otherEffects) == 0 && !earlyExit && len(appends) > 0 && len(slotStores) == 0:
		// collect-then-sort: every appended-to slice must reach a sort call before any other use
		if sortedAfter {
			site.Class = "collect-sort"
			site.Why = "loop only appends; the collected slice is sorted (total order on distinct keys) before use"
		} else {
			site.Why = "loop appends to a slice that is not sorted afterwards"
		}
	case len(otherEffects) == 0 && !earlyExit && len(appends) == 0 && len(slotStores) == 0:
		site.Class = "commutative"
		site.Why = "loop body has no order-dependent effect (pure accumulation in locals/phis)"
		if eng.loopCarriesNonCommutative(li) {
			site.Class = "unclassified"
			site.Why = "loop-carried value other than counters/booleans"
		}
	case onlyMapUpdates && !earlyExit && len(appends) == 0 && len(slotStores) == 0:
		site.Class = "commutative"
		site.Why = "loop body only writes map entries (keyed writes commute for distinct keys)"
		if eng.loopCarriesNonCommutative(li) {
			site.Class = "unclassified"
			site.Why = "keyed writes, but a loop-carried value other than counters/booleans is selected in iteration order"
		}
	default:
		site.Why = strings.Join(otherEffects, "; ")
		if earlyExit {
			site.Why += "; early exit selects an element in iteration order"
		}
		if len(slotStores) > 0 && !sortedAfter {
			site.Why += "; slots written in iteration order without a later sort"
		}
	}
	return site
}

// loopCarriesNonCommutative: header phis other than ints/bools (e.g. a string
// being concatenated, "first error" pointers) make the result order dependent.
func (eng *Engine) loopCarriesNonCommutative(li *loopInfo) bool {
	for _, in := range li.head.Instrs {
		phi, ok := in.(*ssa.Phi)
		if !ok {
			break
		}
		switch t := phi.Type().Underlying().(type) {
		case *types.Basic:
			if t.Info()&(types.IsInteger|types.IsBoolean) != 0 {
				continue
			}
			return true
		default:
			return true
		}
	}
	return false
}

func (eng *Engine) collectedThenSorted(fn *ssa.Function, li *loopInfo, appends []*ssa.Call) bool {
	// every append result feeds (through phis) values that, after the loop, are
	// passed to a sort.* call or to a function whose name contains "sort"/"Sort"
	sortedAny := false
	for _, b := range fn.Blocks {
		if li.body[b] {
			continue
		}
		for _, in := range b.Instrs {
			c, ok := in.(*ssa.Call)
			if !ok {
				continue
			}
			callee := c.Call.StaticCallee()
			if callee == nil {
				continue
			}
			full := callee.String()
			if strings.HasPrefix(full, "sort.") || strings.HasPrefix(full, "slices.Sort") || strings.Contains(callee.Name(), "sort") || strings.Contains(callee.Name(), "Sort") {
				// must be dominated by the loop header (runs after the loop)
				if li.head.Dominates(b) {
					sortedAny = true
				}
			}
		}
	}
	return sortedAny
}

// checkImmutable: every store to Type.field targets an object allocated in the
// same function (the field is only initialised, never reassigned).
func (eng *Engine) checkImmutable(im *ImmutableSpec) FrameResult {
	res := FrameResult{Name: "frame/immutable(" + im.Sel + ")", Props: im.Props, Pos: im.Pos}
	if strings.HasPrefix(im.Sel, "[]") {
		return eng.checkImmutableElems(im, res)
	}
	i := strings.LastIndex(im.Sel, ".")
	st := eng.lookupType(im.PkgPath, im.Sel[:i])
	if st == nil {
		res.Detail = "no such type (contract target changed)"
		return res
	}
	su, ok := st.Underlying().(*types.Struct)
	if !ok {
		res.Detail = "not a struct"
		return res
	}
	fidx := -1
	for k := 0; k < su.NumFields(); k++ {
		if su.Field(k).Name() == im.Sel[i+1:] {
			fidx = k
		}
	}
	if fidx < 0 {
		res.Detail = "no such field (contract target changed)"
		return res
	}
	var bad []string
	n := 0
	for _, fn := range eng.repoFuncs() {
		for _, b := range fn.Blocks {
			for _, in := range b.Instrs {
				switch x := in.(type) {
				case *ssa.FieldAddr:
					pt, ok := x.X.Type().Underlying().(*types.Pointer)
					if !ok || !sameStruct(pt.Elem(), st) || x.Field != fidx || x.Referrers() == nil {
						continue
					}
					for _, r := range *x.Referrers() {
						switch y := r.(type) {
						case *ssa.Store:
							if y.Addr == x {
								n++
								if !isAllocBased(x.X) && !eng.freshBase(x.X, 0) {
									bad = append(bad, targetName(fn, im.PkgPath))
								}
							}
						case *ssa.UnOp, *ssa.DebugRef:
						default:
							bad = append(bad, "address-escapes-in:"+targetName(fn, im.PkgPath))
						}
					}
				case *ssa.Store:
					if pt, ok := x.Addr.Type().Underlying().(*types.Pointer); ok && sameStruct(pt.Elem(), st) && !isAllocBased(x.Addr) && !eng.freshBase(x.Addr, 0) {
						bad = append(bad, "whole-struct-store-in:"+targetName(fn, im.PkgPath))
					}
				}
			}
		}
	}
	var kept []string
	for _, b := range bad {
		if !hasString(im.Except, b) {
			kept = append(kept, b)
		}
	}
	bad = kept
	sort.Strings(bad)
	if len(bad) == 0 {
		res.OK = true
		res.Detail = fmt.Sprintf("%d stores, all to objects allocated in the storing function (hand-inspected exceptions: %v)", n, im.Except)
	} else {
		res.Detail = "reassigned in: " + strings.Join(uniq(bad), ", ")
	}
	return res
}

// rootGlobalContents: v is (derived from) a value loaded from a package-level
// variable — a map, slice or pointer held in the variable — so a write through
// it mutates process-wide state.
func rootGlobalContents(v ssa.Value, depth int) *ssa.Global {
	if depth > 6 {
		return nil
	}
	switch x := v.(type) {
	case *ssa.UnOp:
		if x.Op == token.MUL {
			if g, ok := x.X.(*ssa.Global); ok {
				return g
			}
			return rootGlobalContents(x.X, depth+1)
		}
	case *ssa.FieldAddr:
		return rootGlobalContents(x.X, depth+1)
	case *ssa.IndexAddr:
		return rootGlobalContents(x.X, depth+1)
	case *ssa.Slice:
		return rootGlobalContents(x.X, depth+1)
	case *ssa.Lookup:
		return rootGlobalContents(x.X, depth+1)
	}
	return nil
}

// checkImmutableElems: `immutable []*T`: every store into an element of a
// slice of *T targets storage the storing function (or a constructor it
// called) allocated; the remaining in-place writers are the named exceptions.
func (eng *Engine) checkImmutableElems(im *ImmutableSpec, res FrameResult) FrameResult {
	tname := strings.TrimPrefix(strings.TrimPrefix(im.Sel, "[]"), "*")
	st := eng.lookupType(im.PkgPath, tname)
	if st == nil {
		res.Detail = "no such type (contract target changed)"
		return res
	}
	isElem := func(t types.Type) bool {
		sl, ok := t.Underlying().(*types.Slice)
		if !ok {
			return false
		}
		pt, ok := sl.Elem().Underlying().(*types.Pointer)
		return ok && sameStruct(pt.Elem(), st)
	}
	var bad []string
	n := 0
	for _, fn := range eng.repoFuncs() {
		for _, b := range fn.Blocks {
			for _, in := range b.Instrs {
				switch x := in.(type) {
				case *ssa.Store:
					ia, ok := x.Addr.(*ssa.IndexAddr)
					if !ok || !isElem(ia.X.Type()) {
						continue
					}
					n++
					if !eng.freshBase(ia.X, 0) {
						bad = append(bad, targetName(fn, im.PkgPath))
					}
				case *ssa.Call:
					// copy(dst, src) and append(dst, ...) write dst's storage
					if bi, ok := x.Call.Value.(*ssa.Builtin); ok && len(x.Call.Args) > 0 && isElem(x.Call.Args[0].Type()) {
						switch bi.Name() {
						case "copy":
							n++
							if !eng.freshBase(x.Call.Args[0], 0) {
								bad = append(bad, targetName(fn, im.PkgPath))
							}
						case "append":
							// may write into the spare capacity of its first argument
							n++
							if !isNilConst(x.Call.Args[0]) && !eng.freshBase(x.Call.Args[0], 0) && !clampedArg(x.Call.Args[0]) {
								bad = append(bad, "append-in:"+targetName(fn, im.PkgPath))
							}
						}
					}
				}
			}
		}
	}
	var kept []string
	for _, b := range bad {
		if !hasString(im.Except, b) {
			kept = append(kept, b)
		}
	}
	bad = kept
	sort.Strings(bad)
	if len(bad) == 0 {
		res.OK = true
		res.Detail = fmt.Sprintf("%d element writes, all to storage allocated in the writing function (hand-inspected exceptions: %v)", n, im.Except)
	} else {
		res.Detail = "written in place in: " + strings.Join(uniq(bad), ", ")
	}
	return res
}

// clampedArg: the slice is a full (three-index) slice expression or the result
// of a function named clampCap*: an append to it cannot write shared storage.
func clampedArg(v ssa.Value) bool {
	switch x := v.(type) {
	case *ssa.Slice:
		return x.Max != nil
	case *ssa.Call:
		if c := x.Call.StaticCallee(); c != nil && strings.HasPrefix(c.Name(), "clampCap") {
			return true
		}
	}
	return false
}

// atomicallyWritesParam0: fn is a mutating sync/atomic operation, or a repository
// function that hands (a field of) its first parameter to one.
func (eng *Engine) atomicallyWritesParam0(fn *ssa.Function, depth int) bool {
	if fn == nil || depth > 3 {
		return false
	}
	if obj := fn.Object(); obj != nil && obj.Pkg() != nil && obj.Pkg().Path() == "sync/atomic" {
		n := fn.Name()
		for _, p := range []string{"Add", "Store", "Swap", "CompareAndSwap", "And", "Or"} {
			if strings.HasPrefix(n, p) {
				return true
			}
		}
		return false
	}
	if !isRepoFunc(fn) || len(fn.Params) == 0 {
		return false
	}
	p0 := fn.Params[0]
	for _, b := range fn.Blocks {
		for _, in := range b.Instrs {
			call, ok := in.(*ssa.Call)
			if !ok || len(call.Call.Args) == 0 {
				continue
			}
			c := call.Call.StaticCallee()
			if c == nil {
				continue
			}
			a := call.Call.Args[0]
			for {
				if fa, ok := a.(*ssa.FieldAddr); ok {
					a = fa.X
					continue
				}
				// (*uint64)(c): a pointer conversion names the same cell
				if ct, ok := a.(*ssa.ChangeType); ok {
					a = ct.X
					continue
				}
				if cv, ok := a.(*ssa.Convert); ok {
					a = cv.X
					continue
				}
				break
			}
			if a == p0 && eng.atomicallyWritesParam0(c, depth+1) {
				return true
			}
		}
	}
	return false
}
