package main

import (
	"sync"
	"encoding/json"
	"flag"
	"fmt"
	"os"
	"path/filepath"
	"sort"
	"strconv"
	"strings"
	"time"
)

// Item is one decided (or undecided) obligation of a check run.
type Item struct {
	Name     string  `json:"name"`
	Backend  string  `json:"backend"` // wp+<solver> | frame | lemma+<solver> | cover+<solver>
	Kind     string  `json:"kind"`
	Status   string  `json:"status"` // discharged | failed | undecided
	Solver   string  `json:"solver,omitempty"`
	Secs     float64 `json:"secs"`
	Pos      string  `json:"pos,omitempty"`
	Detail   string  `json:"detail,omitempty"`
	File     string  `json:"smt_file,omitempty"`
	SMTBytes int     `json:"smt_bytes,omitempty"`
	Raw      string  `json:"-"`
	Locked   bool    `json:"locked"`
	Func     string  `json:"func,omitempty"`
	contract bool    // derived from contract text (missing => detached contract)
}

type CheckRun struct {
	Prop        string
	Tier        string
	Seed        int
	Items       []*Item
	Funcs       []string
	Assumptions map[string]bool
	LoadSecs    float64
	GenSecs     float64
	SolveSecs   float64
	EngErrors   []string
	Bounded     []string
	Skipped     int
}

type Lock map[string][]string

func readLock() Lock {
	l := Lock{}
	b, err := os.ReadFile(filepath.Join(verifDir, "obligations.lock"))
	if err == nil {
		_ = json.Unmarshal(b, &l)
	}
	return l
}

func writeLock(l Lock) error {
	for k := range l {
		sort.Strings(l[k])
	}
	b, _ := json.MarshalIndent(l, "", " ")
	return os.WriteFile(filepath.Join(verifDir, "obligations.lock"), append(b, '\n'), 0o644)
}

type Finding struct {
	Kind       string // open | fixed
	Prop       string
	Obligation string
	Text       string
}

func readFindings() []Finding {
	var out []Finding
	b, err := os.ReadFile(filepath.Join(verifDir, "known_findings.txt"))
	if err != nil {
		return nil
	}
	for _, line := range strings.Split(string(b), "\n") {
		line = strings.TrimSpace(line)
		if line == "" || strings.HasPrefix(line, "#") {
			continue
		}
		var f Finding
		switch {
		case strings.HasPrefix(line, "open:"):
			f.Kind = "open"
			line = strings.TrimSpace(line[5:])
		case strings.HasPrefix(line, "fixed:"):
			f.Kind = "fixed"
			line = strings.TrimSpace(line[6:])
		default:
			continue
		}
		f.Text = line
		for _, fld := range splitFields(line) {
			if strings.HasPrefix(fld, "property=") {
				f.Prop = fld[len("property="):]
			}
			if strings.HasPrefix(fld, "obligation=") {
				f.Obligation = strings.Trim(fld[len("obligation="):], `"`)
			}
		}
		out = append(out, f)
	}
	return out
}

// splitFields splits on spaces but keeps key="quoted value" together.
func splitFields(s string) []string {
	var out []string
	var cur strings.Builder
	inq := false
	for _, r := range s {
		switch {
		case r == '"':
			inq = !inq
			cur.WriteRune(r)
		case r == ' ' && !inq:
			if cur.Len() > 0 {
				out = append(out, cur.String())
				cur.Reset()
			}
		default:
			cur.WriteRune(r)
		}
	}
	if cur.Len() > 0 {
		out = append(out, cur.String())
	}
	return out
}

func contractKind(kind string) bool {
	switch {
	case kind == "ensures", kind == "frame", kind == "ensures-on-panic", kind == "lemma", kind == "sweep", kind == "nopanic", kind == "keeps", kind == "keeps-on-panic":
		return true
	case strings.HasPrefix(kind, "loop"), strings.HasPrefix(kind, "assert-at"):
		return true
	}
	return false
}

// runProperty generates and decides every obligation of one property.
func runProperty(eng *Engine, prop, tier string, seed int, loadSecs float64) *CheckRun {
	return runPropertyFiltered(eng, prop, tier, seed, loadSecs, nil, true)
}

// runPropertyFiltered: only restricts VC generation to the named functions when
// only != nil (used by the must-fail corpus, where unchanged functions produce
// byte-identical obligations); retry enables the long-budget retry of locked
// obligations that time out.
func runPropertyFiltered(eng *Engine, prop, tier string, seed int, loadSecs float64, only map[string]bool, retry bool) *CheckRun {
	run := &CheckRun{Prop: prop, Tier: tier, Seed: seed, Assumptions: map[string]bool{}, LoadSecs: loadSecs}
	budget := 6000
	if tier == "thorough" {
		budget = 20000
	}
	if v := os.Getenv("GOVC_BUDGET_MS"); v != "" {
		if n, err := strconv.Atoi(v); err == nil {
			budget = n
		}
	}
	// development aid: GOVC_ONLY=suffix restricts the run to functions whose name ends with it
	if sfx := os.Getenv("GOVC_ONLY"); sfx != "" && only == nil {
		only = map[string]bool{}
		for n := range eng.byName {
			if strings.HasSuffix(n, sfx) {
				only[n] = true
			}
		}
	}
	t0 := time.Now()
	var obls []*Obligation
	for _, fn := range eng.funcsForProperty(prop) {
		if only != nil && !only[fn.String()] {
			continue
		}
		fr := eng.genFunc(fn, eng.conOf[fn])
		run.Funcs = append(run.Funcs, shortFn(fn))
		for _, e := range fr.Errors {
			run.EngErrors = append(run.EngErrors, e)
		}
		for n := range fr.VC.notes {
			run.Assumptions[n] = true
		}
		for n := range fr.VC.unsup {
			run.Assumptions["unsupported construct abstracted by havoc in "+shortFn(fn)+": "+n] = true
		}
		obls = append(obls, fr.Obls...)
	}
	// zero-annotation no-panic sweep over every registered builtin (C03)
	if prop == "C03" {
		done := map[string]bool{}
		for _, f := range run.Funcs {
			done[f] = true
		}
		ents := eng.collectBuiltins()
		for _, ent := range ents {
			if done[shortFn(ent.Fn)] {
				continue
			}
			if only != nil && !only[ent.Fn.String()] {
				continue
			}
			con := eng.mergedSweepContract(ent)
			if con == nil {
				continue
			}
			fr := eng.genFunc(ent.Fn, con)
			run.Funcs = append(run.Funcs, shortFn(ent.Fn))
			for n := range fr.VC.unsup {
				run.Assumptions["unsupported construct abstracted by havoc in "+shortFn(ent.Fn)+": "+n] = true
			}
			for _, o := range fr.Obls {
				if safetyKind(o.Kind) || o.Kind == "cover" {
					obls = append(obls, o)
				}
			}
		}
		run.Assumptions[fmt.Sprintf("sweep: %d builtin table entries; precondition of each = arity from its registered Formals (what bind guarantees), non-nil cells, a pushed frame", len(ents))] = true
	}
	// C09: every builtin table entry keeps sealed (parsed) nodes: the LBuiltin
	// type contract's `keeps` is proved here for the in-repo builtins
	if prop == "C09" {
		if tc := eng.cs.Types[repoPrefix+"/lisp::LBuiltin"]; tc != nil && len(tc.Keeps) > 0 {
			ents := eng.collectBuiltins()
			nz := 0
			for _, ent := range ents {
				if only != nil && !only[ent.Fn.String()] {
					continue
				}
				con := eng.mergedSweepContract(ent)
				if con == nil {
					continue
				}
				withKeeps := *con
				withKeeps.Keeps = append(append([]string{}, con.Keeps...), tc.Keeps...)
				fr := eng.genFunc(ent.Fn, &withKeeps)
				k := 0
				for _, o := range fr.Obls {
					if strings.Contains(o.Kind, "keeps") {
						obls = append(obls, o)
						k++
					}
				}
				if k > 0 {
					nz++
					run.Funcs = append(run.Funcs, shortFn(ent.Fn)+" [keeps]")
				}
			}
			run.Assumptions[fmt.Sprintf("C09 keeps sweep: %d builtin table entries checked against the LBuiltin type contract's `keeps LVal.sealed`; %d write an LVal field or cell at all (the others generate no obligation)", len(ents), nz)] = true
		}
	}
	// lemmas
	for _, lm := range eng.cs.Lemmas {
		if hasString(lm.Props, prop) {
			if o := eng.lemmaObligation(lm); o != nil {
				obls = append(obls, o)
			}
		}
	}
	for _, e := range eng.errors {
		if ps := eng.errProps[e]; ps == nil || hasString(ps, prop) {
			run.EngErrors = append(run.EngErrors, e)
		}
	}
	run.EngErrors = uniq(run.EngErrors)
	run.GenSecs = time.Since(t0).Seconds()
	t1 := time.Now()
	lock := readLock()
	locked := map[string]bool{}
	for _, n := range lock[prop] {
		locked[n] = true
	}
	isLocked := func(o *Obligation) bool {
		if locked[o.Name] {
			return true
		}
		if contractKind(o.Kind) {
			// a NEW instance of a clause all of whose instances were locked
			// (e.g. a new call site of an assert-at callee) is covered by the clause
			base := o.Name
			if i := strings.LastIndex(o.Name, "#"); i > 0 {
				base = o.Name[:i]
			}
			if locked["CLAUSE:"+base] {
				return true
			}
		}
		return false
	}
	// quick tier: only the claimed (locked) obligations and the vacuity guards of
	// their functions are decided; the thorough tier also attempts every other
	// generated obligation (reported as undecided-new when it does not discharge)
	if tier == "quick" && len(locked) > 0 && os.Getenv("GOVC_ALL") == "" {
		lockedFuncs := map[string]bool{}
		for _, o := range obls {
			if isLocked(o) {
				lockedFuncs[o.Func] = true
			}
		}
		// known findings are re-decided on every run (they print KNOWN-FINDING
		// while they still fail, and a note when they stop failing)
		openNames := map[string]bool{}
		for _, f := range readFindings() {
			if f.Kind == "open" && f.Prop == prop {
				openNames[f.Obligation] = true
			}
		}
		var keep []*Obligation
		skipped := 0
		for _, o := range obls {
			if isLocked(o) || openNames[o.Name] || (o.Cover && lockedFuncs[o.Func]) {
				keep = append(keep, o)
			} else {
				skipped++
			}
		}
		obls = keep
		run.Skipped = skipped
	}
	if tier == "thorough" {
		for _, o := range obls {
			if !isLocked(o) {
				o.Budget = 3000 // unclaimed obligations are only attempted
			}
		}
	}
	if os.Getenv("GOVC_NOSOLVE") != "" {
		// generation only (lock --markers): report every obligation as skipped
		for _, o := range obls {
			run.Items = append(run.Items, &Item{Name: o.Name, Kind: o.Kind, Func: o.Func, Status: "skipped", contract: contractKind(o.Kind)})
		}
		return run
	}
	results := solveAll(obls, filepath.Join(verifDir, "out", prop), budget, seed, 16)
	// retry locked obligations that timed out once with a longer budget.  The
	// retries run five at a time (each races three solvers) and at most 48 are
	// retried: a change that turns hundreds of obligations `unknown` is reported
	// from the first pass instead of costing 30 s per obligation in sequence.
	{
		var idx []int
		for i, r := range results {
			if retry && locked[r.O.Name] && r.R.Status == "unknown" && budget < 30000 {
				idx = append(idx, i)
			}
		}
		if len(idx) > 48 {
			fmt.Printf("NOTE %d locked obligations undecided after the first pass; only the first 48 are retried with the long budget\n", len(idx))
			idx = idx[:48]
		}
		sem := make(chan struct{}, 5)
		var wg sync.WaitGroup
		for _, i := range idx {
			wg.Add(1)
			sem <- struct{}{}
			go func(i int) {
				defer wg.Done()
				defer func() { <-sem }()
				rr := solve(results[i].File, 30000, seed+1)
				rr.Secs += results[i].R.Secs
				results[i].R = rr
			}(i)
		}
		wg.Wait()
	}
	for _, r := range results {
		it := &Item{Name: r.O.Name, Kind: r.O.Kind, Solver: r.R.Solver, Secs: r.R.Secs, Pos: r.O.Pos, File: r.File, Locked: locked[r.O.Name], Func: r.O.Func, Raw: r.R.Output}
		it.contract = contractKind(r.O.Kind)
		// a contract clause is locked as a clause: a new instance of it (a new call
		// site of an assert-at callee, a new return path) is covered by the same lock
		// (only when every instance of the clause was locked: the CLAUSE marker)
		if !it.Locked && it.contract && isLocked(r.O) {
			it.Locked = true
			it.Detail = "new instance of a locked contract clause; "
		}
		if fi, err := os.Stat(r.File); err == nil {
			it.SMTBytes = int(fi.Size())
		}
		be := "wp"
		if r.O.Kind == "lemma" {
			be = "lemma"
		}
		it.Backend = be + "+" + r.R.Solver
		ok := r.R.Status == "unsat"
		if r.O.Cover {
			// vacuity guard: the point must not be provably unreachable.  With
			// quantified hypotheses solvers answer "unknown" instead of "sat";
			// only a refutation (unsat) counts against the guard.
			ok = r.R.Status != "unsat"
			it.Backend = "cover+" + r.R.Solver
			it.Locked = false
		}
		switch {
		case ok:
			it.Status = "discharged"
		case r.R.Status == "sat" && !r.O.Cover:
			it.Status = "failed"
			it.Detail += "solver found a counter-model"
		case r.R.Status == "unsat" && r.O.Cover:
			it.Status = "failed"
			it.Detail = "vacuous: precondition/path is unsatisfiable"
		default:
			it.Status = "undecided"
			it.Detail += "no solver decided within the budget"
		}
		run.Items = append(run.Items, it)
	}
	// frame back end
	for _, fs := range eng.cs.Frames {
		if !hasString(fs.Props, prop) {
			continue
		}
		t := time.Now()
		fr := eng.checkFrame(fs)
		it := &Item{Name: fr.Name, Backend: "frame", Kind: "frame", Pos: fr.Pos, Detail: fr.Detail, Secs: time.Since(t).Seconds(), Locked: locked[fr.Name], contract: true}
		if fr.OK {
			it.Status = "discharged"
		} else {
			it.Status = "failed"
		}
		run.Items = append(run.Items, it)
	}
	for _, im := range eng.cs.Immutable {
		if !hasString(im.Props, prop) {
			continue
		}
		fr := eng.checkImmutable(im)
		it := &Item{Name: fr.Name, Backend: "frame", Kind: "frame", Pos: fr.Pos, Detail: fr.Detail, Locked: locked[fr.Name], contract: true}
		if fr.OK {
			it.Status = "discharged"
		} else {
			it.Status = "failed"
		}
		run.Items = append(run.Items, it)
	}
	for _, it := range eng.sweepItems(prop) {
		it.Locked = locked[it.Name]
		run.Items = append(run.Items, it)
	}
	run.SolveSecs = time.Since(t1).Seconds()
	return run
}

func uniq(xs []string) []string {
	seen := map[string]bool{}
	var out []string
	for _, x := range xs {
		if !seen[x] {
			seen[x] = true
			out = append(out, x)
		}
	}
	return out
}

var trustedBase = []string{
	"go/ssa + go/types (x/tools v0.50.0, go1.26.8) as the meaning of the Go source; GOARCH=amd64 integer widths",
	"slices hold at most 2^48 elements (the Go runtime's maxAlloc on linux/amd64); an append that would exceed it is not modelled (the runtime panics with out-of-memory first)",
	"govc VC generator (/verif/tool) and its memory model (DESIGN §2.3)",
	"SMT solvers z3 5.1.0, z3 4.8.12, cvc5 1.0.3 (first definitive answer wins)",
	"assumed stdlib contracts listed under assumptions (DESIGN §3(3))",
	"structural-induction meta-arguments of DESIGN §3(6) (local contracts => whole-program property)",
}

func cmdCheck(args []string) int {
	fs := flag.NewFlagSet("check", flag.ExitOnError)
	prop := fs.String("property", "", "property id")
	tier := fs.String("tier", "quick", "quick|thorough")
	repo := fs.String("repo", "/repo", "repository root")
	fs.Parse(args)
	if *prop == "" {
		fmt.Fprintln(os.Stderr, "--property required")
		return 2
	}
	if t := os.Getenv("VERIF_TIER"); t != "" && *tier == "" {
		*tier = t
	}
	seed := 0
	if s := os.Getenv("VERIF_SEED"); s != "" {
		if n, err := strconv.Atoi(s); err == nil {
			seed = n
		}
	}
	start := time.Now()
	// a run against a scratch copy of the repository (seeded-change tests) must
	// not overwrite the evidence of the registered check, which is about /repo
	scratchRepo = *repo != "/repo"
	eng, err := loadEngine(*repo, repoPkgPatterns, nil)
	if err != nil {
		fmt.Printf("govc: cannot load %s: %v\n", *repo, err)
		return 3
	}
	loadSecs := time.Since(start).Seconds()
	run := runProperty(eng, *prop, *tier, seed, loadSecs)
	selfOK := true
	var selfNotes []string
	if *tier == "thorough" {
		selfOK, selfNotes = runSelftest(*prop, seed)
	}
	return report(run, time.Since(start).Seconds(), selfOK, selfNotes)
}

// report writes the evidence file, prints the summary and returns the exit code.
func report(run *CheckRun, wall float64, selfOK bool, selfNotes []string) int {
	findings := readFindings()
	open := map[string]Finding{}
	for _, f := range findings {
		if f.Kind == "open" && f.Prop == run.Prop {
			open[f.Obligation] = f
		}
	}
	lock := readLock()
	generated := map[string]bool{}
	var violations []*Item
	var undecidedNew []*Item
	var known []string
	claimed, discharged := 0, 0
	byBackend := map[string]int{}
	solverTime := 0.0
	var refutedCovers []string
	for _, it := range run.Items {
		generated[it.Name] = true
		solverTime += it.Secs
		if it.Kind == "cover" {
			// vacuity guards are reported, never locked and never a violation
			if it.Status != "discharged" {
				refutedCovers = append(refutedCovers, it.Name)
			} else {
				byBackend["cover"]++
			}
			continue
		}
		if f, ok := open[it.Name]; ok {
			if it.Status != "discharged" {
				known = append(known, "KNOWN-FINDING: "+f.Text)
			} else {
				fmt.Printf("note: known finding %q now discharges (finding no longer reproduces)\n", it.Name)
			}
			continue
		}
		switch {
		case it.Status == "discharged":
			claimed++
			discharged++
			byBackend[it.Backend]++
		case it.Locked:
			claimed++
			violations = append(violations, it)
		default:
			undecidedNew = append(undecidedNew, it)
		}
	}
	// locked obligations that were not generated (detached contract)
	for _, n := range lock[run.Prop] {
		if generated[n] || strings.HasPrefix(n, "CLAUSE:") {
			continue
		}
		if _, isKnown := open[n]; isKnown {
			continue
		}
		kind := ""
		if parts := strings.Split(n, "/"); len(parts) >= 2 {
			kind = parts[1]
			if len(parts) >= 3 && !contractKind(kind) {
				// names are Func/kind/anchor; Func itself may contain "/" in package paths
				for _, p := range parts[1:] {
					if contractKind(p) {
						kind = p
						break
					}
				}
			}
		}
		if contractKind(kind) {
			it := &Item{Name: n, Status: "failed", Kind: kind, Locked: true, Detail: "locked obligation was not generated: its contract no longer attaches to the code (contract target changed)"}
			if len(run.EngErrors) > 0 {
				it.Detail += "; " + strings.Join(run.EngErrors, "; ")
			}
			claimed++
			violations = append(violations, it)
		}
	}
	// a contract that cannot be evaluated against the code is a detached contract
	for _, e := range run.EngErrors {
		claimed++
		violations = append(violations, &Item{Name: run.Prop + "/contract-error/" + sanitize(e), Status: "failed", Kind: "contract-error", Locked: true, Detail: "contract error (the contract no longer attaches to the code): " + e})
	}
	if !selfOK {
		violations = append(violations, &Item{Name: run.Prop + "/selftest", Status: "failed", Kind: "selftest", Detail: "must-fail corpus: " + strings.Join(selfNotes, "; ")})
	}
	// evidence
	var samples []any
	for _, it := range run.Items {
		if it.Status == "discharged" && it.Kind != "cover" && it.Kind != "nil" && len(samples) < 6 {
			samples = append(samples, map[string]any{"obligation": it.Name, "backend": it.Backend, "secs": round3(it.Secs), "smt_bytes": it.SMTBytes, "source": it.Pos})
		}
	}
	if len(samples) == 0 {
		for _, it := range run.Items {
			if len(samples) < 3 {
				samples = append(samples, map[string]any{"obligation": it.Name, "backend": it.Backend, "status": it.Status})
			}
		}
	}
	var und []any
	for _, it := range undecidedNew {
		und = append(und, map[string]any{"obligation": it.Name, "status": it.Status, "detail": it.Detail, "source": it.Pos})
	}
	assumptions := append([]string{}, sortedKeys(run.Assumptions)...)
	assumptions = append(assumptions, propertyAssumptions[run.Prop]...)
	ev := map[string]any{
		"property_id": run.Prop,
		"tier":        run.Tier,
		"seed":        run.Seed,
		"level":       "proof",
		"coverage": map[string]any{
			"obligations":              claimed,
			"discharged":               discharged,
			"checker_cmd":              fmt.Sprintf("/verif/bin/govc check --property %s --tier %s", run.Prop, run.Tier),
			"trusted_base":             trustedBase,
			"functions_under_contract": run.Funcs,
			"by_backend":               byBackend,
			"solver_time_s":            round3(solverTime),
			"samples":                  samples,
			"undecided_new":            und,
			"undecided_new_count":      len(und),
			"unclaimed_not_attempted":  run.Skipped,
			"bounded":                  run.Bounded,
			"known_findings":           known,
			"vacuity_guards_refuted":   refutedCovers,
			"selftest":                 selfNotes,
			"load_s":                   round3(run.LoadSecs),
			"vcgen_s":                  round3(run.GenSecs),
			"explanation":              "obligations = claimed obligations (discharged on this run, or locked in obligations.lock); undecided_new lists generated obligations that are not claimed (failed proofs are undecided, not violations)",
		},
		"assumptions": assumptions,
		"wall_s":      round3(wall),
		"violations":  len(violations),
	}
	evDir := filepath.Join(verifDir, "evidence")
	if scratchRepo {
		evDir = filepath.Join(verifDir, "out", "scratch-evidence")
	}
	os.MkdirAll(evDir, 0o755)
	b, _ := json.MarshalIndent(ev, "", " ")
	os.WriteFile(filepath.Join(evDir, run.Prop+".json"), append(b, '\n'), 0o644)

	fmt.Printf("govc %s %s: %d functions under contract, %d obligations claimed, %d discharged, %d undecided-new, %d violations (load %.1fs, vcgen %.1fs, solve %.1fs)\n",
		run.Prop, run.Tier, len(run.Funcs), claimed, discharged, len(undecidedNew), len(violations), run.LoadSecs, run.GenSecs, run.SolveSecs)
	for _, e := range run.EngErrors {
		fmt.Println("contract error:", e)
	}
	for _, k := range known {
		fmt.Println(k)
	}
	// vacuity guards refuted on this run that the committed baseline does not
	// list: reported loudly (a contradictory assumption upstream makes every
	// obligation below it pass), not counted as a property violation
	if b, err := os.ReadFile(filepath.Join(verifDir, "expected_dead.txt")); err == nil {
		base := map[string]bool{}
		for _, l := range strings.Split(string(b), "\n") {
			base[strings.TrimSpace(l)] = true
		}
		for _, c := range refutedCovers {
			if !base[c] {
				fmt.Printf("NOTE vacuity-guard newly refuted (not in expected_dead.txt): %s\n", c)
			}
		}
	}
	for _, n := range selfNotes {
		fmt.Println("selftest:", n)
	}
	if os.Getenv("GOVC_VERBOSE") != "" {
		for _, it := range undecidedNew {
			fmt.Printf("undecided-new: %s (%s) %s\n", it.Name, it.Status, it.Pos)
		}
	}
	if len(violations) == 0 {
		if claimed == 0 {
			fmt.Printf("VIOLATION property=%s replay=%s no-failing-input-found\n", run.Prop, writeReplay(run.Prop, &Item{Name: run.Prop + "/no-obligations", Detail: "the run generated no claimed obligations (vacuous check)"}, nil))
			return 1
		}
		return 0
	}
	for _, v := range violations {
		path, confirmed := replayViolation(run, v)
		suffix := ""
		if !confirmed {
			suffix = " no-failing-input-found"
		}
		fmt.Printf("failed obligation: %s [%s] %s\n", v.Name, v.Pos, v.Detail)
		fmt.Printf("VIOLATION property=%s replay=%s%s\n", run.Prop, path, suffix)
	}
	return 1
}

func round3(f float64) float64 { return float64(int(f*1000+0.5)) / 1000 }

func writeReplay(prop string, it *Item, extra map[string]any) string {
	dir := filepath.Join(verifDir, "replay")
	os.MkdirAll(dir, 0o755)
	name := prop + "-" + sanitize(it.Name)
	if len(name) > 150 {
		name = name[:130] + fmt.Sprintf("_%08x", hash32(it.Name))
	}
	path := filepath.Join(dir, name+".json")
	m := map[string]any{
		"property":      prop,
		"obligation":    it.Name,
		"kind":          it.Kind,
		"source":        it.Pos,
		"status":        it.Status,
		"detail":        it.Detail,
		"backend":       it.Backend,
		"smt_file":      it.File,
		"solver_output": truncate(it.Raw, 20000),
	}
	for k, v := range extra {
		m[k] = v
	}
	b, _ := json.MarshalIndent(m, "", " ")
	os.WriteFile(path, append(b, '\n'), 0o644)
	return path
}

func truncate(s string, n int) string {
	if len(s) > n {
		return s[:n] + "\n…(truncated)"
	}
	return s
}

// cmdLock records the obligations that discharge (stably) on the current tree.
func cmdLock(args []string) int {
	fs := flag.NewFlagSet("lock", flag.ExitOnError)
	prop := fs.String("property", "", "property id (comma separated; empty = all claimed in MANIFEST)")
	runs := fs.Int("runs", 3, "number of seeds")
	markers := fs.Bool("markers", false, "only recompute the CLAUSE: markers of the existing lock (no solving)")
	fs.Parse(args)
	var props []string
	if *prop != "" {
		props = strings.Split(*prop, ",")
	} else {
		props = manifestProps()
	}
	eng, err := loadEngine("/repo", repoPkgPatterns, nil)
	if err != nil {
		fmt.Println("load:", err)
		return 3
	}
	lock := readLock()
	os.Setenv("GOVC_BUDGET_MS", "6000")
	os.Setenv("GOVC_ALL", "1")
	if *markers {
		os.Setenv("GOVC_NOSOLVE", "1")
		for _, p := range props {
			run := runProperty(eng, p, "quick", 1, 0)
			isLockedName := map[string]bool{}
			var names []string
			for _, n := range lock[p] {
				if !strings.HasPrefix(n, "CLAUSE:") {
					names = append(names, n)
					isLockedName[n] = true
				}
			}
			all := map[string]bool{}
			for _, it := range run.Items {
				if !it.contract || it.Kind == "cover" {
					continue
				}
				base := it.Name
				if i := strings.LastIndex(it.Name, "#"); i > 0 {
					base = it.Name[:i]
				}
				if _, seen := all[base]; !seen {
					all[base] = true
				}
				if !isLockedName[it.Name] {
					all[base] = false
				}
			}
			nm := 0
			for base, ok := range all {
				if ok {
					names = append(names, "CLAUSE:"+base)
					nm++
				}
			}
			sort.Strings(names)
			lock[p] = names
			fmt.Printf("%s: %d clause markers over %d locked obligations\n", p, nm, len(names)-nm)
		}
		if err := writeLock(lock); err != nil {
			fmt.Println(err)
			return 2
		}
		return 0
	}
	for _, p := range props {
		count := map[string]int{}
		slow := map[string]bool{}
		generated := map[string]bool{} // every contract-kind obligation generated, discharged or not
		for s := 0; s < *runs; s++ {
			// no 30 s retries while locking: an obligation that needs one is too slow to claim
			run := runPropertyFiltered(eng, p, "quick", s*7+1, 0, nil, false)
			for _, it := range run.Items {
				if it.contract && it.Kind != "cover" {
					generated[it.Name] = true
				}
				if it.Status == "discharged" && it.Kind != "cover" {
					count[it.Name]++
					limit := 1.0
					if it.contract {
						limit = 3.5 // contract clauses may be slower; a locked one that times out is retried with 30 s
					}
					if it.Secs > limit {
						slow[it.Name] = true
					}
				}
			}
			for _, e := range run.EngErrors {
				fmt.Println("contract error:", e)
			}
		}
		var names []string
		for n, c := range count {
			if c == *runs && !slow[n] {
				names = append(names, n)
			} else {
				fmt.Printf("not locked (unstable or slow): %s (%d/%d, slow=%v)\n", n, c, *runs, slow[n])
			}
		}
		// clause markers: every generated instance of the clause is locked
		{
			isLockedName := map[string]bool{}
			for _, n := range names {
				isLockedName[n] = true
			}
			all := map[string]bool{}
			for n := range generated {
				base := n
				if i := strings.LastIndex(n, "#"); i > 0 {
					base = n[:i]
				}
				if _, seen := all[base]; !seen {
					all[base] = true
				}
				if !isLockedName[n] {
					all[base] = false
				}
			}
			for base, ok := range all {
				if ok {
					names = append(names, "CLAUSE:"+base)
				}
			}
		}
		sort.Strings(names)
		// never weaken silently: name every contract clause that was locked and is not any more
		now := map[string]bool{}
		for _, n := range names {
			now[n] = true
		}
		for _, n := range lock[p] {
			if !now[n] && lockedContractName(n) {
				fmt.Printf("DROPPED from lock (was locked, no longer discharges stably): %s\n", n)
			}
		}
		lock[p] = names
		fmt.Printf("%s: locked %d obligations\n", p, len(names))
		// written after every property: a long lock run can be interrupted
		if err := writeLock(lock); err != nil {
			fmt.Println(err)
			return 2
		}
	}
	if err := writeLock(lock); err != nil {
		fmt.Println(err)
		return 2
	}
	return 0
}

// lockedContractName reports whether a lock entry names a contract clause
// (ensures, invariant, assert-at, frame ...) rather than a safety obligation.
func lockedContractName(n string) bool {
	for _, p := range strings.Split(n, "/") {
		if contractKind(p) {
			return true
		}
	}
	return false
}

func manifestProps() []string {
	b, err := os.ReadFile(filepath.Join(verifDir, "MANIFEST.json"))
	if err != nil {
		return nil
	}
	var m struct {
		Checks []struct {
			PropertyID string `json:"property_id"`
		} `json:"checks"`
	}
	json.Unmarshal(b, &m)
	var out []string
	for _, c := range m.Checks {
		out = append(out, c.PropertyID)
	}
	return out
}

// propertyAssumptions: clause-level non-applicability and meta-arguments per property.
var propertyAssumptions = map[string][]string{
	"C03": {
		"input invariant lvalOK of every builtin argument (what the constructors of package lisp establish) is assumed at the LBuiltin boundary, not proved preserved",
		"the argument list header of a builtin is built per call and unsealed (perCallArgs)",
		"not decided by contracts: termination, stack exhaustion, parser/lexer, cycle guards",
	},
	"C07": {"only the gensym clause is decided; macro-expansion equivalence and quasiquote are not"},
	"C08": {"use-package, get/Put/Update and scope lookup are decided; in-package defaults and qualified resolution inside eval are not"},
	"C09": {
		"LBuiltin type contract `keeps LVal.sealed` is an ASSUMPTION for host builtins and for the in-repo table entries whose keeps obligations are listed as undecided",
		"typeinv LVal sealedKinds (a sealed node is of a kind the parser produces) is assumed for every value read; justified by the proved clauses of sealAST/InheritSeal and the immutable LVal.sealed/Type frames",
		"race freedom follows by the ownership argument of DESIGN 3(6), not machine-checked",
	},
	"C11": {"sorted-map contents (host-replaceable Map interface) and the appendBytes callback arms of append-bytes/append-bytes! are not under contract"},
	"C13": {"encoding/json and strconv are trusted dependencies; only the :exact-integers number decoding, key comparator and order-independent object errors are decided"},
	"C14": {"floats are uninterpreted except Go's comparison semantics on compared pairs; s:in, s:regexp and iteration order inside composite validators are not under contract"},
	"C17": {"only the renaming filter and the name-collision obligation are decided; semantic preservation of the minified program is not"},
	"C18": {"only the location of limit errors and env.loc restoration are decided; stack-trace contents are not"},
}

// scratchRepo is set when the check was pointed at a directory other than /repo.
var scratchRepo bool
