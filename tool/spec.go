package main

import (
	"fmt"
	"go/ast"
	"go/constant"
	"go/token"
	"go/types"
	"strconv"
	"strings"

	"golang.org/x/tools/go/ssa"
)

// SpecEnv evaluates contract expressions to SMT terms.
type SpecEnv struct {
	vc      *VC
	fn      *ssa.Function // function the contract is attached to (may be nil for type contracts)
	pkgPath string
	binds   map[string]Val
	cur     *State
	old     *State
	bound   map[string]bool
}

func (e *SpecEnv) pkg() *types.Package {
	if e.fn != nil && e.fn.Pkg != nil {
		return e.fn.Pkg.Pkg
	}
	if e.fn != nil && e.fn.Parent() != nil && e.fn.Parent().Pkg != nil {
		return e.fn.Parent().Pkg.Pkg
	}
	path := e.pkgPath
	if path == "" && e.vc.con != nil {
		path = e.vc.con.PkgPath
	}
	for _, p := range e.vc.eng.pkgs {
		if p.PkgPath == path {
			return p.Types
		}
	}
	if e.vc.fn != nil && e.vc.fn.Pkg != nil {
		return e.vc.fn.Pkg.Pkg
	}
	return nil
}

func (e *SpecEnv) fail(f string, a ...any) Val {
	msg := fmt.Sprintf(f, a...)
	e.vc.eng.errorf("%s: contract expression: %s", e.vc.fnName(), msg)
	return Val{T: e.vc.freshConst("specerr", "Bool"), Ty: types.Typ[types.Bool]}
}

func (e *SpecEnv) boolExpr(x ast.Expr) Term {
	v := e.eval(x)
	if v.T == "" {
		return "true"
	}
	return v.T
}

func (e *SpecEnv) with(st *State) *SpecEnv {
	n := *e
	n.cur = st
	return &n
}

func (e *SpecEnv) eval(x ast.Expr) Val {
	vc := e.vc
	switch x := x.(type) {
	case *ast.ParenExpr:
		return e.eval(x.X)
	case *ast.BasicLit:
		switch x.Kind {
		case token.INT:
			v := constant.MakeFromLiteral(x.Value, token.INT, 0)
			return Val{T: smtInt(v.ExactString()), Ty: types.Typ[types.UntypedInt]}
		case token.STRING:
			s, _ := strconv.Unquote(x.Value)
			return Val{T: vc.strConst(s), Ty: types.Typ[types.String]}
		case token.CHAR:
			s, _, _, _ := strconv.UnquoteChar(x.Value[1:len(x.Value)-1], '\'')
			return Val{T: fmt.Sprint(int(s)), Ty: types.Typ[types.UntypedRune]}
		case token.FLOAT:
			return Val{T: vc.floatLit(constant.MakeFromLiteral(x.Value, token.FLOAT, 0)), Ty: types.Typ[types.Float64]}
		}
		return e.fail("literal %s", x.Value)
	case *ast.Ident:
		return e.ident(x)
	case *ast.SelectorExpr:
		return e.selector(x)
	case *ast.IndexExpr:
		return e.index(x)
	case *ast.StarExpr:
		p := e.eval(x.X)
		if p.Place != nil {
			return e.loadPlace(p.Place)
		}
		pt, ok := p.Ty.Underlying().(*types.Pointer)
		if !ok {
			return e.fail("deref of non-pointer")
		}
		if _, isS := pt.Elem().Underlying().(*types.Struct); isS {
			return Val{T: p.T, Ty: pt.Elem(), Loc: true, St: e.cur}
		}
		return Val{T: vc.loadAt(e.cur, p.T, pt.Elem()), Ty: pt.Elem()}
	case *ast.UnaryExpr:
		v := e.eval(x.X)
		switch x.Op {
		case token.NOT:
			return Val{T: smtNot(v.T), Ty: types.Typ[types.Bool]}
		case token.SUB:
			return Val{T: "(- " + v.T + ")", Ty: v.Ty}
		case token.AND:
			if v.Loc {
				return Val{T: v.T, Ty: types.NewPointer(v.Ty)}
			}
		}
		return e.fail("unary %s", x.Op)
	case *ast.BinaryExpr:
		return e.binary(x)
	case *ast.CallExpr:
		return e.call(x)
	case *ast.TypeAssertExpr:
		v := e.eval(x.X)
		t := e.typeExpr(x.Type)
		if t == nil {
			return e.fail("unknown type in assertion")
		}
		return Val{T: vc.unbox(t, "(i.val "+v.T+")"), Ty: t}
	case *ast.SliceExpr:
		v := e.eval(x.X)
		lo, hi := "0", "(s.len "+v.T+")"
		if x.Low != nil {
			lo = e.eval(x.Low).T
		}
		if x.High != nil {
			hi = e.eval(x.High).T
		}
		if _, ok := v.Ty.Underlying().(*types.Slice); ok {
			return Val{T: fmt.Sprintf("(mk-slice (s.arr %s) (+ (s.off %s) %s) (- %s %s) (- (s.cap %s) %s))", v.T, v.T, lo, hi, lo, v.T, lo), Ty: v.Ty}
		}
		return e.fail("slice expression on non-slice")
	}
	return e.fail("unsupported expression %T", x)
}

func (e *SpecEnv) loadPlace(p *Place) Val {
	if p.Kind == "global" {
		return Val{T: e.vc.get(e.cur, p.Var), Ty: p.Ty}
	}
	return Val{T: "(select " + e.vc.get(e.cur, p.Var) + " " + p.Base + ")", Ty: p.Ty}
}

func (e *SpecEnv) ident(x *ast.Ident) Val {
	vc := e.vc
	if v, ok := e.binds[x.Name]; ok {
		return v
	}
	// <param>0 names the entry value of a parameter (parameters are mutable in Go;
	// inside a loop the plain name is the current value)
	if n := len(x.Name); n > 1 && x.Name[n-1] == '0' {
		if e.fn == vc.fn {
			if v, ok := vc.params[x.Name[:n-1]]; ok {
				return v
			}
		} else if v, ok := e.binds[x.Name[:n-1]]; ok {
			// a callee's contract at a call site: the actual argument
			return v
		}
	}
	switch x.Name {
	case "true":
		return Val{T: "true", Ty: types.Typ[types.Bool]}
	case "false":
		return Val{T: "false", Ty: types.Typ[types.Bool]}
	case "nil":
		return Val{T: "nil", Ty: types.Typ[types.UntypedNil]}
	}
	if p, ok := vc.eng.cs.Preds[x.Name]; ok && len(p.Params) == 0 {
		return e.eval(p.Expr)
	}
	if strings.HasPrefix(x.Name, "ghost_") {
		return Val{T: vc.get(e.cur, vc.ghostVar(strings.TrimPrefix(x.Name, "ghost_"))), Ty: types.Typ[types.Int]}
	}
	if vc.eng.cs.GhostNames[x.Name] {
		return Val{T: vc.get(e.cur, vc.ghostVar(x.Name)), Ty: types.Typ[types.Int]}
	}
	if pk := e.pkg(); pk != nil {
		if obj := pk.Scope().Lookup(x.Name); obj != nil {
			return e.object(obj)
		}
	}
	if obj := types.Universe.Lookup(x.Name); obj != nil {
		if c, ok := obj.(*types.Const); ok {
			return e.constObj(c)
		}
	}
	return e.fail("unknown identifier %q (contract target changed?)", x.Name)
}

func (e *SpecEnv) constObj(c *types.Const) Val {
	vc := e.vc
	switch c.Val().Kind() {
	case constant.Bool:
		if constant.BoolVal(c.Val()) {
			return Val{T: "true", Ty: c.Type()}
		}
		return Val{T: "false", Ty: c.Type()}
	case constant.Int:
		return Val{T: smtInt(c.Val().ExactString()), Ty: c.Type()}
	case constant.String:
		return Val{T: vc.strConst(constant.StringVal(c.Val())), Ty: c.Type()}
	case constant.Float:
		if isInteger(c.Type()) {
			return Val{T: smtInt(constant.ToInt(c.Val()).ExactString()), Ty: c.Type()}
		}
		return Val{T: vc.floatLit(c.Val()), Ty: c.Type()}
	}
	return e.fail("constant %s", c.Name())
}

func (e *SpecEnv) object(obj types.Object) Val {
	vc := e.vc
	switch o := obj.(type) {
	case *types.Const:
		return e.constObj(o)
	case *types.Var:
		// package-level variable
		if sp := vc.eng.prog.Package(o.Pkg()); sp != nil {
			if g, ok := sp.Members[o.Name()].(*ssa.Global); ok {
				el := g.Type().(*types.Pointer).Elem()
				switch el.Underlying().(type) {
				case *types.Struct, *types.Array:
					fr := &Frame{vc: vc}
					v := fr.val(g)
					return Val{T: v.T, Ty: el, Loc: true, St: e.cur}
				}
				return Val{T: vc.get(e.cur, vc.globalVar(g)), Ty: el}
			}
		}
	case *types.Func:
		if f := vc.eng.prog.FuncValue(o); f != nil {
			fr := &Frame{vc: vc}
			v := fr.val(f)
			return v
		}
	}
	return e.fail("cannot use %s here", obj.Name())
}

func (e *SpecEnv) selector(x *ast.SelectorExpr) Val {
	_ = e.vc
	// package-qualified name?
	if id, ok := x.X.(*ast.Ident); ok {
		if _, bound := e.binds[id.Name]; !bound {
			if pk := e.importedPkg(id.Name); pk != nil {
				obj := pk.Scope().Lookup(x.Sel.Name)
				if obj == nil {
					return e.fail("%s.%s not found", id.Name, x.Sel.Name)
				}
				return e.object(obj)
			}
		}
	}
	base := e.eval(x.X)
	if base.Ty == nil {
		return e.fail("selector on untyped value")
	}
	return e.field(base, x.Sel.Name)
}

func (e *SpecEnv) importedPkg(name string) *types.Package {
	pk := e.pkg()
	if pk == nil {
		return nil
	}
	if pk.Scope().Lookup(name) != nil {
		return nil
	}
	for _, imp := range pk.Imports() {
		if imp.Name() == name {
			return imp
		}
	}
	// any loaded package with that name
	for _, p := range e.vc.eng.allPkgs() {
		if p.Name() == name {
			return p
		}
	}
	return nil
}

// field selects a (possibly promoted) field.
func (e *SpecEnv) field(base Val, name string) Val {
	vc := e.vc
	obj, path, _ := types.LookupFieldOrMethod(base.Ty, true, e.pkg(), name)
	if obj == nil {
		// unexported field of another package: search manually
		obj, path = lookupFieldAnyPkg(base.Ty, name)
	}
	fv, ok := obj.(*types.Var)
	if !ok || fv == nil {
		return e.fail("no field %q in %s (contract target changed)", name, base.Ty)
	}
	cur := base
	for _, idx := range path {
		t := cur.Ty
		isPtr := false
		if p, ok := t.Underlying().(*types.Pointer); ok {
			t = p.Elem()
			isPtr = true
		}
		su, ok := t.Underlying().(*types.Struct)
		if !ok {
			return e.fail("field path through non-struct %s", t)
		}
		ft := su.Field(idx).Type()
		st := cur.St
		if st == nil {
			st = e.cur
		}
		if isPtr || cur.Loc {
			switch ft.Underlying().(type) {
			case *types.Struct, *types.Array:
				cur = Val{T: vc.subRef(cur.T, t, idx), Ty: ft, Loc: true, St: st}
			default:
				hv := vc.fieldVar(t, idx)
				cur = Val{T: "(select " + vc.get(st, hv) + " " + cur.T + ")", Ty: ft}
				vc.rangeFact(hv, cur.T)
				// Go type invariant of the value read (slice shape, integer range)
				if ti := vc.typeInv(cur.T, ft); ti != "true" {
					vc.fact(cur.T, ti)
				}
			}
		} else {
			cur = Val{T: "(" + vc.fieldSel(t, idx) + " " + cur.T + ")", Ty: ft}
		}
	}
	return cur
}

func lookupFieldAnyPkg(t types.Type, name string) (types.Object, []int) {
	if p, ok := t.Underlying().(*types.Pointer); ok {
		t = p.Elem()
	}
	su, ok := t.Underlying().(*types.Struct)
	if !ok {
		return nil, nil
	}
	for i := 0; i < su.NumFields(); i++ {
		if su.Field(i).Name() == name {
			return su.Field(i), []int{i}
		}
	}
	for i := 0; i < su.NumFields(); i++ {
		if su.Field(i).Embedded() {
			if o, p := lookupFieldAnyPkg(su.Field(i).Type(), name); o != nil {
				return o, append([]int{i}, p...)
			}
		}
	}
	return nil, nil
}

func (e *SpecEnv) materialize(v Val) Val {
	if !v.Loc {
		return v
	}
	st := v.St
	if st == nil {
		st = e.cur
	}
	return Val{T: e.vc.loadAt(st, v.T, v.Ty), Ty: v.Ty}
}

func (e *SpecEnv) index(x *ast.IndexExpr) Val {
	vc := e.vc
	base := e.eval(x.X)
	idx := e.eval(x.Index)
	if base.Ty == nil {
		return e.fail("index on untyped value")
	}
	switch u := base.Ty.Underlying().(type) {
	case *types.Slice:
		ref := vc.elemRef("(s.arr "+base.T+")", "(+ (s.off "+base.T+") "+idx.T+")")
		if _, isS := u.Elem().Underlying().(*types.Struct); isS {
			return Val{T: ref, Ty: u.Elem(), Loc: true, St: e.cur}
		}
		return Val{T: vc.loadAt(e.cur, ref, u.Elem()), Ty: u.Elem()}
	case *types.Map:
		vv, hv := vc.mapVars(base.Ty)
		has := fmt.Sprintf("(and (not (= %s nil)) (select (select %s %s) %s))", base.T, vc.get(e.cur, hv), base.T, idx.T)
		return Val{T: smtIte(has, fmt.Sprintf("(select (select %s %s) %s)", vc.get(e.cur, vv), base.T, idx.T), vc.zeroOf(u.Elem())), Ty: u.Elem()}
	case *types.Basic:
		if vc.smtStr {
			return Val{T: "(str.to_code (str.at " + base.T + " " + idx.T + "))", Ty: types.Typ[types.Uint8]}
		}
		return Val{T: "(sat " + base.T + " " + idx.T + ")", Ty: types.Typ[types.Uint8]}
	case *types.Array:
		if base.Loc {
			ref := vc.elemRef(base.T, idx.T)
			if _, isS := u.Elem().Underlying().(*types.Struct); isS {
				return Val{T: ref, Ty: u.Elem(), Loc: true, St: base.St}
			}
			return Val{T: vc.loadAt(e.cur, ref, u.Elem()), Ty: u.Elem()}
		}
		return Val{T: "(select " + base.T + " " + idx.T + ")", Ty: u.Elem()}
	}
	return e.fail("index on %s", base.Ty)
}

func (e *SpecEnv) coerceNil(a, b Val) (Val, Val) {
	fix := func(n Val, other Val) Val {
		if n.T != "nil" || (n.Ty != nil && n.Ty != types.Typ[types.UntypedNil]) {
			return n
		}
		if other.Ty == nil || other.Ty == types.Typ[types.UntypedNil] {
			return Val{T: "nil", Ty: n.Ty}
		}
		return Val{T: e.vc.zeroOf(other.Ty), Ty: other.Ty}
	}
	return fix(a, b), fix(b, a)
}

func (e *SpecEnv) binary(x *ast.BinaryExpr) Val {
	vc := e.vc
	boolT := types.Typ[types.Bool]
	switch x.Op {
	case token.LAND:
		return Val{T: smtAnd(e.eval(x.X).T, e.eval(x.Y).T), Ty: boolT}
	case token.LOR:
		return Val{T: smtOr(e.eval(x.X).T, e.eval(x.Y).T), Ty: boolT}
	}
	a, b := e.eval(x.X), e.eval(x.Y)
	a, b = e.coerceNil(a, b)
	ty := a.Ty
	if ty == nil || isUntyped(ty) {
		ty = b.Ty
	}
	switch x.Op {
	case token.EQL, token.NEQ:
		a, b = e.materialize(a), e.materialize(b)
		var t Term
		if ty != nil && isFloat(ty) {
			vc.decl("fun:f64_eq", "(declare-fun f64_eq (F64 F64) Bool)")
			vc.f64pair(a.T, b.T)
			t = "(f64_eq " + a.T + " " + b.T + ")"
		} else {
			t = smtEq(a.T, b.T)
		}
		if x.Op == token.NEQ {
			t = smtNot(t)
		}
		return Val{T: t, Ty: boolT}
	case token.LSS, token.LEQ, token.GTR, token.GEQ:
		if ty != nil && isFloat(ty) {
			vc.decl("fun:f64_lt", "(declare-fun f64_lt (F64 F64) Bool)")
			vc.decl("fun:f64_le", "(declare-fun f64_le (F64 F64) Bool)")
			vc.f64pair(a.T, b.T)
			switch x.Op {
			case token.LSS:
				return Val{T: "(f64_lt " + a.T + " " + b.T + ")", Ty: boolT}
			case token.LEQ:
				return Val{T: "(f64_le " + a.T + " " + b.T + ")", Ty: boolT}
			case token.GTR:
				return Val{T: "(f64_lt " + b.T + " " + a.T + ")", Ty: boolT}
			default:
				return Val{T: "(f64_le " + b.T + " " + a.T + ")", Ty: boolT}
			}
		}
		if ty != nil && isString(ty) {
			return e.fail("string ordering in contracts is not supported")
		}
		op := map[token.Token]string{token.LSS: "<", token.LEQ: "<=", token.GTR: ">", token.GEQ: ">="}[x.Op]
		return Val{T: "(" + op + " " + a.T + " " + b.T + ")", Ty: boolT}
	case token.ADD:
		if ty != nil && isString(ty) {
			if vc.smtStr {
				return Val{T: "(str.++ " + a.T + " " + b.T + ")", Ty: ty}
			}
			vc.decl("fun:sconcat", "(declare-fun sconcat (Str Str) Str)")
			return Val{T: "(sconcat " + a.T + " " + b.T + ")", Ty: ty}
		}
		// contract arithmetic is mathematical (unbounded)
		return Val{T: "(+ " + a.T + " " + b.T + ")", Ty: ty}
	case token.SUB:
		return Val{T: "(- " + a.T + " " + b.T + ")", Ty: ty}
	case token.MUL:
		return Val{T: "(* " + a.T + " " + b.T + ")", Ty: ty}
	case token.QUO:
		if ty != nil && isFloat(ty) {
			vc.decl("fun:f64_div", "(declare-fun f64_div (F64 F64) F64)")
			return Val{T: "(f64_div " + a.T + " " + b.T + ")", Ty: ty}
		}
		return Val{T: "(tdiv " + a.T + " " + b.T + ")", Ty: ty}
	case token.REM:
		return Val{T: "(trem " + a.T + " " + b.T + ")", Ty: ty}
	}
	return e.fail("binary operator %s", x.Op)
}

func isUntyped(t types.Type) bool {
	b, ok := t.(*types.Basic)
	return ok && b.Info()&types.IsUntyped != 0
}

func (e *SpecEnv) typeExpr(x ast.Expr) types.Type {
	switch x := x.(type) {
	case *ast.ParenExpr:
		return e.typeExpr(x.X)
	case *ast.StarExpr:
		if t := e.typeExpr(x.X); t != nil {
			return types.NewPointer(t)
		}
	case *ast.Ident:
		if pk := e.pkg(); pk != nil {
			if tn, ok := pk.Scope().Lookup(x.Name).(*types.TypeName); ok {
				return tn.Type()
			}
		}
		if tn, ok := types.Universe.Lookup(x.Name).(*types.TypeName); ok {
			return tn.Type()
		}
	case *ast.SelectorExpr:
		if id, ok := x.X.(*ast.Ident); ok {
			if pk := e.importedPkg(id.Name); pk != nil {
				if tn, ok := pk.Scope().Lookup(x.Sel.Name).(*types.TypeName); ok {
					return tn.Type()
				}
			}
		}
	case *ast.ArrayType:
		if x.Len == nil {
			if t := e.typeExpr(x.Elt); t != nil {
				return types.NewSlice(t)
			}
		}
	}
	return nil
}

func (e *SpecEnv) call(x *ast.CallExpr) Val {
	vc := e.vc
	boolT := types.Typ[types.Bool]
	if id, ok := x.Fun.(*ast.Ident); ok {
		switch id.Name {
		case "old":
			return e.with(e.old).eval(x.Args[0])
		case "implies":
			// short-circuit: a constantly false antecedent (called("f") at a site no
			// call to f can precede) makes the clause hold without looking at the
			// consequent, which may not be expressible there (ret("f", 0))
			lhs := e.eval(x.Args[0])
			if lhs.T == "false" {
				return Val{T: "true", Ty: boolT}
			}
			return Val{T: smtImp(lhs.T, e.eval(x.Args[1]).T), Ty: boolT}
		case "iff":
			return Val{T: smtEq(e.eval(x.Args[0]).T, e.eval(x.Args[1]).T), Ty: boolT}
		case "ite":
			c := e.eval(x.Args[0])
			a, b := e.eval(x.Args[1]), e.eval(x.Args[2])
			a, b = e.coerceNil(a, b)
			a, b = e.materialize(a), e.materialize(b)
			ty := a.Ty
			if ty == nil || isUntyped(ty) {
				ty = b.Ty
			}
			return Val{T: smtIte(c.T, a.T, b.T), Ty: ty}
		case "forall", "exists":
			if len(x.Args) != 4 {
				return e.fail("%s(i, lo, hi, body)", id.Name)
			}
			iv, ok := x.Args[0].(*ast.Ident)
			if !ok {
				return e.fail("quantifier variable must be an identifier")
			}
			lo, hi := e.eval(x.Args[1]), e.eval(x.Args[2])
			bv := vc.fresh("q_" + iv.Name)
			sub := *e
			sub.binds = map[string]Val{}
			for k, v := range e.binds {
				sub.binds[k] = v
			}
			sub.binds[iv.Name] = Val{T: smtSym(bv), Ty: types.Typ[types.Int]}
			nq := len(vc.qfacts)
			body := sub.eval(x.Args[3])
			if len(vc.qfacts) > nq {
				facts := smtAnd(vc.qfacts[nq:]...)
				vc.qfacts = vc.qfacts[:nq]
				if id.Name == "forall" {
					body.T = smtImp(facts, body.T)
				} else {
					body.T = smtAnd(facts, body.T)
				}
			}
			rng := fmt.Sprintf("(and (<= %s %s) (< %s %s))", lo.T, smtSym(bv), smtSym(bv), hi.T)
			if id.Name == "forall" {
				// Re-index by the absolute position k = off + j of the first slice that is
				// indexed by j directly: the trigger (elem arr k) then has a plain
				// variable as index and matches every ground element reference of that
				// array, whatever arithmetic shape its index has.
				if arr, off, ok := firstDirectElem(body.T, smtSym(bv)); ok {
					k := smtSym(vc.fresh("q_k"))
					direct := "(+ " + off + " " + smtSym(bv) + ")"
					b2 := strings.ReplaceAll(body.T, direct, k)
					b2 = replaceSym(b2, smtSym(bv), "(- "+k+" "+off+")")
					rng2 := fmt.Sprintf("(and (<= (+ %s %s) %s) (< %s (+ %s %s)))", off, lo.T, k, k, off, hi.T)
					return Val{T: fmt.Sprintf("(forall ((%s Int)) (! (=> %s %s) :pattern ((elem %s %s))))", k, rng2, b2, arr, k), Ty: boolT}
				}
				// explicit triggers: the element references that mention the bound variable
				pats := elemPatterns(body.T, smtSym(bv))
				if len(pats) > 0 {
					var ps []string
					for _, p := range pats {
						ps = append(ps, ":pattern ("+p+")")
					}
					return Val{T: fmt.Sprintf("(forall ((%s Int)) (! (=> %s %s) %s))", smtSym(bv), rng, body.T, strings.Join(ps, " ")), Ty: boolT}
				}
				return Val{T: fmt.Sprintf("(forall ((%s Int)) (=> %s %s))", smtSym(bv), rng, body.T), Ty: boolT}
			}
			return Val{T: fmt.Sprintf("(exists ((%s Int)) (and %s %s))", smtSym(bv), rng, body.T), Ty: boolT}
		case "len":
			return e.lenOf(e.eval(x.Args[0]))
		case "cap":
			v := e.eval(x.Args[0])
			return Val{T: "(s.cap " + v.T + ")", Ty: types.Typ[types.Int]}
		case "fresh":
			v := e.eval(x.Args[0])
			clk0 := e.old.heap["CLK"]
			switch v.Ty.Underlying().(type) {
			case *types.Slice:
				return Val{T: "(>= (at (s.arr " + v.T + ")) " + clk0 + ")", Ty: boolT}
			}
			return Val{T: "(>= (at " + v.T + ") " + clk0 + ")", Ty: boolT}
		case "allocated":
			v := e.eval(x.Args[0])
			return Val{T: "(< (at " + v.T + ") " + e.cur.heap["CLK"] + ")", Ty: boolT}
		case "unchanged":
			var cs []Term
			for _, a := range x.Args {
				n := e.materialize(e.eval(a))
				o := e.materialize(e.with(e.old).eval(a))
				cs = append(cs, smtEq(n.T, o.T))
			}
			return Val{T: smtAnd(cs...), Ty: boolT}
		case "haskey", "mapput", "mapdel", "mapsame":
			// Go maps: haskey(m, k); mapput(m, k, v): m's contents are the old contents
			// with k bound to v; mapdel(m, k); mapsame(m): contents unchanged
			m := e.eval(x.Args[0])
			mt, ok := m.Ty.Underlying().(*types.Map)
			if !ok {
				return e.fail("%s: not a map", id.Name)
			}
			vv, hv := vc.mapVars(m.Ty)
			curV, curH := "(select "+vc.get(e.cur, vv)+" "+m.T+")", "(select "+vc.get(e.cur, hv)+" "+m.T+")"
			oldV, oldH := "(select "+vc.get(e.old, vv)+" "+m.T+")", "(select "+vc.get(e.old, hv)+" "+m.T+")"
			switch id.Name {
			case "haskey":
				k := e.materialize(e.eval(x.Args[1]))
				return Val{T: "(and (not (= " + m.T + " nil)) (select " + curH + " " + k.T + "))", Ty: boolT}
			case "mapsame":
				return Val{T: smtAnd(smtEq(curV, oldV), smtEq(curH, oldH)), Ty: boolT}
			case "mapput":
				k, v := e.materialize(e.eval(x.Args[1])), e.materialize(e.eval(x.Args[2]))
				if v.T == "nil" {
					v.T = vc.zeroOf(mt.Elem())
				}
				return Val{T: smtAnd(smtEq(curV, "(store "+oldV+" "+k.T+" "+v.T+")"), smtEq(curH, "(store "+oldH+" "+k.T+" true)")), Ty: boolT}
			default:
				k := e.materialize(e.eval(x.Args[1]))
				return Val{T: smtEq(curH, "(store "+oldH+" "+k.T+" false)"), Ty: boolT}
			}
		case "typeis":
			v := e.eval(x.Args[0])
			t := e.typeExpr(x.Args[1])
			if t == nil {
				return e.fail("typeis: unknown type")
			}
			return Val{T: "(= (i.tag " + v.T + ") " + vc.typeID(t) + ")", Ty: boolT}
		case "preserved":
			// preserved(Type.field): the field keeps its value on every object that
			// existed in the old state
			sel, ok := x.Args[0].(*ast.SelectorExpr)
			if !ok {
				return e.fail("preserved(Type.field)")
			}
			tid, ok := sel.X.(*ast.Ident)
			if !ok {
				return e.fail("preserved(Type.field)")
			}
			pk := e.pkgPath
			if pk == "" && e.pkg() != nil {
				pk = e.pkg().Path()
			}
			st := vc.eng.lookupType(pk, tid.Name)
			if st == nil {
				return e.fail("preserved: unknown type %s (contract target changed)", tid.Name)
			}
			su, ok := st.Underlying().(*types.Struct)
			if !ok {
				return e.fail("preserved: %s is not a struct", tid.Name)
			}
			for k := 0; k < su.NumFields(); k++ {
				if su.Field(k).Name() == sel.Sel.Name {
					hv := vc.fieldVar(st, k)
					cur, old := vc.get(e.cur, hv), vc.get(e.old, hv)
					if cur == old {
						return Val{T: "true", Ty: boolT}
					}
					bv := smtSym(vc.fresh("q_r"))
					return Val{T: fmt.Sprintf("(forall ((%s Ref)) (! (=> (< (at %s) %s) (= (select %s %s) (select %s %s))) :pattern ((select %s %s))))", bv, bv, e.old.heap["CLK"], cur, bv, old, bv, cur, bv), Ty: boolT}
				}
			}
			return e.fail("preserved: no field %s.%s (contract target changed)", tid.Name, sel.Sel.Name)
		case "identical":
			// bitwise identity (SMT equality), also for floats
			a, b := e.materialize(e.eval(x.Args[0])), e.materialize(e.eval(x.Args[1]))
			a, b = e.coerceNil(a, b)
			return Val{T: smtEq(a.T, b.T), Ty: boolT}
		case "arr":
			v := e.eval(x.Args[0])
			return Val{T: "(s.arr " + v.T + ")", Ty: types.Typ[types.UnsafePointer]}
		case "off":
			v := e.eval(x.Args[0])
			return Val{T: "(s.off " + v.T + ")", Ty: types.Typ[types.Int]}
		case "strlt":
			// Go's string order (uninterpreted strict total order in opaque-string mode)
			a, b := e.eval(x.Args[0]), e.eval(x.Args[1])
			if vc.smtStr {
				return Val{T: "(str.< " + a.T + " " + b.T + ")", Ty: boolT}
			}
			vc.decl("fun:str_lt", "(declare-fun str_lt (Str Str) Bool)")
			return Val{T: "(str_lt " + a.T + " " + b.T + ")", Ty: boolT}
		case "isnan":
			v := e.eval(x.Args[0])
			vc.decl("fun:f64_isnan", "(declare-fun f64_isnan (F64) Bool)")
			return Val{T: "(f64_isnan " + v.T + ")", Ty: boolT}
		case "strlen":
			v := e.eval(x.Args[0])
			return Val{T: vc.slenOf(v.T), Ty: types.Typ[types.Int]}
		case "hasPrefix":
			a, b := e.eval(x.Args[0]), e.eval(x.Args[1])
			if !vc.smtStr {
				return e.fail("hasPrefix needs `strings smt`")
			}
			return Val{T: "(str.prefixof " + b.T + " " + a.T + ")", Ty: boolT}
		case "ghost":
			if idn, ok := x.Args[0].(*ast.Ident); ok {
				return Val{T: vc.get(e.cur, vc.ghostVar(idn.Name)), Ty: types.Typ[types.Int]}
			}
		case "local":
			// local("name"): current value of the source-level local variable name of the
			// function under verification (its phi, or its value when assigned once)
			lit, ok := x.Args[0].(*ast.BasicLit)
			if !ok || vc.topFrame == nil {
				return e.fail("local(\"name\")")
			}
			name, _ := strconv.Unquote(lit.Value)
			var best ssa.Value
			for v := range vc.topFrame.vals {
				switch y := v.(type) {
				case *ssa.Phi:
					if y.Comment == name && (best == nil || y.Block().Index > best.(*ssa.Phi).Block().Index) {
						if vc.siteBlock == nil || y.Block() == vc.siteBlock || y.Block().Dominates(vc.siteBlock) {
							best = y
						}
					}
				}
			}
			if best != nil {
				return vc.topFrame.val(best)
			}
			// a variable that lives in a cell (captured by a closure, or address
			// taken): local("x") is its address, *local("x") its current value
			for v := range vc.topFrame.vals {
				if a, ok := v.(*ssa.Alloc); ok && a.Comment == name && a.Parent() == vc.fn {
					return vc.topFrame.val(a)
				}
			}
			return e.fail("local(%q): no such variable at this point (contract target changed)", name)
		case "loopvar":
			// loopvar(k): current value of the range index (first header phi) of loop k
			lit, ok := x.Args[0].(*ast.BasicLit)
			if !ok {
				return e.fail("loopvar(k)")
			}
			k, _ := strconv.Atoi(lit.Value)
			if vc.topFrame != nil {
				for _, li := range vc.topFrame.loops {
					if li.ord != k {
						continue
					}
					if phi := loopIndexPhi(li.head); phi != nil {
						return vc.topFrame.val(phi)
					}
				}
			}
			return e.fail("loopvar(%d): no such loop (contract target changed)", k)
		case "rangeval":
			// rangeval(k): the element the current turn of range loop k was entered
			// with (the value of `for _, v := range s` as loaded at the top of the
			// turn), independent of what later calls did to the backing array
			lit, ok := x.Args[0].(*ast.BasicLit)
			if !ok {
				return e.fail("rangeval(k)")
			}
			k, _ := strconv.Atoi(lit.Value)
			if vc.topFrame != nil {
				for _, li := range vc.topFrame.loops {
					if li.ord != k {
						continue
					}
					phi := loopIndexPhi(li.head)
					if phi == nil {
						break
					}
					for _, b := range vc.fn.Blocks {
						if !li.body[b] && b != li.head {
							continue
						}
						for _, in := range b.Instrs {
							u, ok := in.(*ssa.UnOp)
							if !ok || u.Op != token.MUL {
								continue
							}
							ia, ok := u.X.(*ssa.IndexAddr)
							if !ok {
								continue
							}
							bo, ok := ia.Index.(*ssa.BinOp)
							if !ok || bo.Op != token.ADD || bo.X != ssa.Value(phi) {
								continue
							}
							if _, have := vc.topFrame.vals[u]; have {
								return vc.topFrame.val(u)
							}
						}
					}
				}
			}
			return e.fail("rangeval(%d): no such range loop element at this point (contract target changed)", k)
		case "ext":
			return e.extCall(x)
		case "called":
			// called("callee"): some call to callee was made on the path that reaches this point
			lit, ok := x.Args[0].(*ast.BasicLit)
			if !ok || len(x.Args) != 1 {
				return e.fail("called(\"callee\")")
			}
			if e.fn != vc.fn {
				return Val{T: vc.freshConst("specerr", "Bool"), Ty: types.Typ[types.Bool]}
			}
			cn, _ := strconv.Unquote(lit.Value)
			var rs []Term
			for _, en := range vc.retLog {
				if calleeMatch(en.name, cn) && en.reach != "" {
					rs = append(rs, en.reach)
				}
			}
			if len(rs) == 0 {
				return Val{T: "false", Ty: types.Typ[types.Bool]}
			}
			return Val{T: smtOr(rs...), Ty: types.Typ[types.Bool]}
		case "ret":
			// ret("callee", i): i-th result of the latest call to callee in this activation
			lit, ok := x.Args[0].(*ast.BasicLit)
			if !ok || len(x.Args) != 2 {
				return e.fail("ret(\"callee\", i)")
			}
			cn, _ := strconv.Unquote(lit.Value)
			il, _ := x.Args[1].(*ast.BasicLit)
			if il == nil {
				return e.fail("ret: index must be a literal")
			}
			idx, _ := strconv.Atoi(il.Value)
			if e.fn != vc.fn {
				// a callee's clause about calls made INSIDE the callee: it says
				// nothing the caller can use (and must not be resolved against the
				// caller's own calls); the clause is skipped at the call site
				return Val{T: vc.freshConst("specerr", "Bool"), Ty: types.Typ[types.Bool]}
			}
			if r, ok := vc.lookupRet(cn); ok && idx < len(r) {
				return r[idx]
			}
			return e.fail("ret: no call to %s recorded before this point (contract target changed)", cn)
		case "uf":
			// uf("name", args...) : uninterpreted Int-valued function of Int/other args
			return e.ufCall(x)
		}
		if p, ok := vc.eng.cs.Preds[id.Name]; ok {
			if len(p.Params) != len(x.Args) {
				return e.fail("pred %s takes %d arguments", id.Name, len(p.Params))
			}
			sub := *e
			sub.binds = map[string]Val{}
			for k, v := range e.binds {
				sub.binds[k] = v
			}
			for i, pn := range p.Params {
				sub.binds[pn] = e.eval(x.Args[i])
			}
			// the body is written against the names of the pred's own package
			if pk := e.pkg(); p.PkgPath != "" && (pk == nil || pk.Path() != p.PkgPath) {
				sub.fn = nil
				sub.pkgPath = p.PkgPath
			}
			return sub.eval(p.Expr)
		}
		// conversion?
		if t := e.typeExpr(id); t != nil && len(x.Args) == 1 {
			v := e.eval(x.Args[0])
			if isFloat(t) && v.Ty != nil && (isInteger(v.Ty) || v.Ty == types.Typ[types.UntypedInt]) {
				vc.declI2F()
				return Val{T: "(i2f " + v.T + ")", Ty: t}
			}
			return Val{T: v.T, Ty: t}
		}
		// package-level function
		if pk := e.pkg(); pk != nil {
			if f, ok := pk.Scope().Lookup(id.Name).(*types.Func); ok {
				return e.callFunc(f, nil, x.Args)
			}
		}
		return e.fail("unknown function %q", id.Name)
	}
	if sel, ok := x.Fun.(*ast.SelectorExpr); ok {
		// pkg.Func(...)
		if id, ok := sel.X.(*ast.Ident); ok {
			if _, bound := e.binds[id.Name]; !bound {
				if pk := e.importedPkg(id.Name); pk != nil {
					obj := pk.Scope().Lookup(sel.Sel.Name)
					if f, ok := obj.(*types.Func); ok {
						return e.callFunc(f, nil, x.Args)
					}
					if tn, ok := obj.(*types.TypeName); ok && len(x.Args) == 1 {
						v := e.eval(x.Args[0])
						return Val{T: v.T, Ty: tn.Type()}
					}
					return e.fail("%s.%s is not callable", id.Name, sel.Sel.Name)
				}
			}
		}
		// method call
		recv := e.eval(sel.X)
		if recv.Ty == nil {
			return e.fail("method call on untyped value")
		}
		obj, _, _ := types.LookupFieldOrMethod(recv.Ty, true, e.pkg(), sel.Sel.Name)
		if obj == nil && !recv.Loc {
			obj, _, _ = types.LookupFieldOrMethod(types.NewPointer(recv.Ty), true, e.pkg(), sel.Sel.Name)
		}
		if obj == nil {
			if named, ok := derefNamed(recv.Ty); ok {
				for i := 0; i < named.NumMethods(); i++ {
					if named.Method(i).Name() == sel.Sel.Name {
						obj = named.Method(i)
					}
				}
			}
		}
		f, ok := obj.(*types.Func)
		if !ok {
			return e.fail("no method %q on %s (contract target changed)", sel.Sel.Name, recv.Ty)
		}
		return e.callFunc(f, &recv, x.Args)
	}
	return e.fail("unsupported call")
}

func derefNamed(t types.Type) (*types.Named, bool) {
	if p, ok := t.Underlying().(*types.Pointer); ok {
		t = p.Elem()
	}
	n, ok := types.Unalias(t).(*types.Named)
	return n, ok
}

func (e *SpecEnv) ufCall(x *ast.CallExpr) Val {
	vc := e.vc
	lit, ok := x.Args[0].(*ast.BasicLit)
	if !ok {
		return e.fail("uf(\"name\", ...)")
	}
	name, _ := strconv.Unquote(lit.Value)
	var sorts, terms []string
	for _, a := range x.Args[1:] {
		v := e.materialize(e.eval(a))
		s := "Int"
		if v.Ty != nil && !isUntyped(v.Ty) {
			s = vc.sortOf(v.Ty)
		}
		sorts = append(sorts, s)
		terms = append(terms, v.T)
	}
	ret := "Int"
	ty := types.Type(types.Typ[types.Int])
	if strings.HasPrefix(name, "is") || strings.HasPrefix(name, "has") || strings.HasSuffix(name, "OK") {
		ret = "Bool"
		ty = types.Typ[types.Bool]
	}
	if strings.HasPrefix(name, "str") {
		ret = vc.strSort()
		ty = types.Typ[types.String]
	}
	if strings.HasPrefix(name, "err") {
		ret = "Iface"
		ty = types.Universe.Lookup("error").Type()
	}
	if strings.HasPrefix(name, "ref") {
		ret = "Ref"
		ty = types.Typ[types.UnsafePointer]
	}
	fn := "uf_" + sanitize(name)
	vc.decl("fun:"+fn, fmt.Sprintf("(declare-fun %s (%s) %s)", fn, strings.Join(sorts, " "), ret))
	if len(terms) == 0 {
		return Val{T: fn, Ty: ty}
	}
	return Val{T: "(" + fn + " " + strings.Join(terms, " ") + ")", Ty: ty}
}

func (e *SpecEnv) lenOf(v Val) Val {
	vc := e.vc
	intT := types.Typ[types.Int]
	if v.Ty == nil {
		return e.fail("len of untyped value")
	}
	switch u := v.Ty.Underlying().(type) {
	case *types.Slice:
		return Val{T: "(s.len " + v.T + ")", Ty: intT}
	case *types.Basic:
		return Val{T: vc.slenOf(v.T), Ty: intT}
	case *types.Array:
		return Val{T: fmt.Sprint(u.Len()), Ty: intT}
	case *types.Map:
		_, hv := vc.mapVars(v.Ty)
		ks := vc.sortOf(u.Key())
		fn := "maplen_" + sanitize(ks)
		vc.decl("fun:"+fn, fmt.Sprintf("(declare-fun %s ((Array %s Bool)) Int)", fn, ks))
		return Val{T: smtIte("(= "+v.T+" nil)", "0", "("+fn+" (select "+vc.get(e.cur, hv)+" "+v.T+"))"), Ty: intT}
	}
	return e.fail("len of %s", v.Ty)
}

// callFunc evaluates a call to a real (pure, loop-free) Go function inside a
// contract by symbolically executing its body in the current spec state.  If
// the callee has a `pure` contract, its ensures are used instead.
func (e *SpecEnv) callFunc(f *types.Func, recv *Val, argExprs []ast.Expr) Val {
	vc := e.vc
	fn := vc.eng.prog.FuncValue(f)
	if fn == nil {
		return e.fail("no SSA for %s", f.FullName())
	}
	var args []Val
	if recv != nil {
		r := *recv
		sigRecv := f.Type().(*types.Signature).Recv()
		if sigRecv != nil {
			_, wantPtr := sigRecv.Type().Underlying().(*types.Pointer)
			if wantPtr && r.Loc {
				r = Val{T: r.T, Ty: sigRecv.Type()}
			} else if !wantPtr {
				if _, isPtr := r.Ty.Underlying().(*types.Pointer); isPtr {
					pt := r.Ty.Underlying().(*types.Pointer)
					r = Val{T: vc.loadAt(e.cur, r.T, pt.Elem()), Ty: pt.Elem()}
				} else {
					r = e.materialize(r)
				}
			}
		}
		args = append(args, r)
	}
	sig := f.Type().(*types.Signature)
	for i, a := range argExprs {
		v := e.materialize(e.eval(a))
		if v.T == "nil" && i < sig.Params().Len() {
			v = Val{T: vc.zeroOf(sig.Params().At(i).Type()), Ty: sig.Params().At(i).Type()}
		}
		args = append(args, v)
	}
	vc.specDepth++
	defer func() { vc.specDepth-- }()
	if vc.specDepth > 6 {
		return e.fail("spec call nesting too deep at %s", f.FullName())
	}
	con := vc.eng.conOf[fn]
	if len(fn.Blocks) == 0 || (con != nil && con.Pure && !con.Inline && len(con.Ensures) > 0 && !vc.eng.specExecutable(fn)) {
		// uninterpreted / contract-defined
		return e.fail("function %s cannot be evaluated in a contract", f.FullName())
	}
	if !vc.eng.specExecutable(fn) {
		return e.fail("function %s is not loop-free/pure enough to be used in a contract", f.FullName())
	}
	sub := vc.newFrame(fn, 1, true)
	sub.bindParams(args)
	st := e.cur.clone()
	st.reach = "true"
	sub.run(st)
	if len(sub.rets) == 0 || sig.Results().Len() == 0 {
		return e.fail("spec function %s does not return a value", f.FullName())
	}
	rt := sig.Results().At(0).Type()
	if len(sub.rets) == 1 {
		r := sub.rets[0].vals[0]
		r.Ty = rt
		return r
	}
	// merge by path conditions (paths partition the space: use nested ite)
	t := sub.rets[len(sub.rets)-1].vals[0].T
	for i := len(sub.rets) - 2; i >= 0; i-- {
		t = smtIte(sub.rets[i].st.reach, sub.rets[i].vals[0].T, t)
	}
	return Val{T: vc.define("spec_"+fn.Name(), vc.sortOf(rt), t), Ty: rt}
}

// specExecutable: loop-free, no defers, only calls to other spec-executable functions.
func (eng *Engine) specExecutable(fn *ssa.Function) bool {
	return eng.specExec(fn, 0)
}

func (eng *Engine) specExec(fn *ssa.Function, depth int) bool {
	if len(fn.Blocks) == 0 || depth > 5 {
		return false
	}
	for _, b := range fn.Blocks {
		for _, s := range b.Succs {
			if backEdge(b, s) {
				return false
			}
		}
		for _, in := range b.Instrs {
			switch x := in.(type) {
			case *ssa.Defer, *ssa.Go, *ssa.Select, *ssa.Send, *ssa.MapUpdate:
				return false
			case *ssa.Call:
				if _, isB := x.Call.Value.(*ssa.Builtin); isB {
					continue
				}
				c := x.Call.StaticCallee()
				if c == nil {
					return false
				}
				if externalKind(c) == "pure" {
					continue
				}
				if !eng.specExec(c, depth+1) {
					return false
				}
			}
		}
	}
	return true
}

// extCall: ext("pkg.Func", resultIndex, args...) names the uninterpreted function
// that models a deterministic stdlib function (same symbol the VC generator uses
// at the call sites in the code).
func (e *SpecEnv) extCall(x *ast.CallExpr) Val {
	vc := e.vc
	if len(x.Args) < 2 {
		return e.fail("ext(\"pkg.Func\", resultIndex, args...)")
	}
	lit, ok := x.Args[0].(*ast.BasicLit)
	if !ok {
		return e.fail("ext: first argument must be a string literal")
	}
	name, _ := strconv.Unquote(lit.Value)
	idxLit, ok := x.Args[1].(*ast.BasicLit)
	if !ok {
		return e.fail("ext: second argument must be the result index")
	}
	idx, _ := strconv.Atoi(idxLit.Value)
	dot := strings.LastIndex(name, ".")
	if dot < 0 {
		return e.fail("ext: name must be pkg.Func")
	}
	var fobj *types.Func
	parts := strings.Split(name, ".")
	for _, p := range vc.eng.allPkgs() {
		if p.Name() != parts[0] {
			continue
		}
		if len(parts) == 2 {
			if f, ok := p.Scope().Lookup(parts[1]).(*types.Func); ok {
				fobj = f
			}
		} else if len(parts) == 3 {
			if tn, ok := p.Scope().Lookup(parts[1]).(*types.TypeName); ok {
				o, _, _ := types.LookupFieldOrMethod(tn.Type(), false, p, parts[2])
				if f, ok := o.(*types.Func); ok {
					fobj = f
				}
			}
		}
	}
	if fobj == nil {
		return e.fail("ext: unknown function %s", name)
	}
	sig := fobj.Type().(*types.Signature)
	var sorts, terms []string
	for _, a := range x.Args[2:] {
		v := e.materialize(e.eval(a))
		s := "Int"
		if v.Ty != nil && !isUntyped(v.Ty) {
			s = vc.sortOf(v.Ty)
		} else if v.Ty != nil && v.Ty == types.Typ[types.UntypedString] {
			s = vc.strSort()
		}
		sorts = append(sorts, s)
		terms = append(terms, v.T)
	}
	fname := "ext_" + sanitize(strings.Join(parts, "_"))
	if sig.Variadic() {
		fname += fmt.Sprintf("_v%d", len(terms)-(sig.Params().Len()-1))
	}
	if sig.Results().Len() > 1 {
		fname += fmt.Sprintf("_%d", idx)
	}
	if idx >= sig.Results().Len() {
		return e.fail("ext: %s has %d results", name, sig.Results().Len())
	}
	rt := sig.Results().At(idx).Type()
	vc.decl("fun:"+fname, fmt.Sprintf("(declare-fun %s (%s) %s)", fname, strings.Join(sorts, " "), vc.sortOf(rt)))
	if len(terms) == 0 {
		return Val{T: fname, Ty: rt}
	}
	return Val{T: "(" + fname + " " + strings.Join(terms, " ") + ")", Ty: rt}
}

// elemPatterns returns the distinct `(elem a i)` subterms of t that mention the
// bound variable bv and no other quantified variable nested inside them.
func elemPatterns(t, bv string) []string {
	var out []string
	seen := map[string]bool{}
	for i := 0; i+6 <= len(t); i++ {
		if !strings.HasPrefix(t[i:], "(elem ") {
			continue
		}
		d := 0
		j := i
		for ; j < len(t); j++ {
			if t[j] == '(' {
				d++
			} else if t[j] == ')' {
				d--
				if d == 0 {
					break
				}
			}
		}
		if j >= len(t) {
			break
		}
		sub := t[i : j+1]
		if !strings.Contains(sub, bv) || seen[sub] {
			continue
		}
		// skip terms that contain another bound variable (q_...) than bv
		other := false
		for _, f := range strings.FieldsFunc(sub, func(r rune) bool { return r == ' ' || r == '(' || r == ')' }) {
			if strings.HasPrefix(f, "q_") && f != bv {
				other = true
			}
		}
		if other || strings.Contains(sub[1:], "(elem ") {
			continue
		}
		seen[sub] = true
		out = append(out, sub)
		if len(out) >= 4 {
			break
		}
	}
	return out
}

// firstDirectElem finds the first subterm of the form (elem A (+ O bv)) and
// returns A and O (neither may mention a quantified variable).
func firstDirectElem(t, bv string) (arr, off string, ok bool) {
	for i := 0; i+6 <= len(t); i++ {
		if !strings.HasPrefix(t[i:], "(elem ") {
			continue
		}
		args := sexprArgs(t[i:])
		if len(args) != 3 {
			continue
		}
		a, idx := args[1], args[2]
		ia := sexprArgs(idx)
		if len(ia) == 3 && ia[0] == "+" && ia[2] == bv && !strings.Contains(a, "q_") && !strings.Contains(ia[1], "q_") {
			return a, ia[1], true
		}
	}
	return "", "", false
}

// sexprArgs splits the s-expression at the start of s into its head and arguments.
func sexprArgs(s string) []string {
	if len(s) == 0 || s[0] != '(' {
		return nil
	}
	var out []string
	d := 0
	start := -1
	for i := 0; i < len(s); i++ {
		c := s[i]
		switch {
		case c == '(':
			d++
			if d == 2 && start < 0 {
				start = i
			}
		case c == ')':
			d--
			if d == 1 && start >= 0 {
				out = append(out, s[start:i+1])
				start = -1
			}
			if d == 0 {
				if start >= 0 {
					out = append(out, s[start:i])
				}
				return out
			}
		case c == ' ':
			if d == 1 && start >= 0 {
				out = append(out, s[start:i])
				start = -1
			}
		default:
			if d == 1 && start < 0 {
				start = i
			}
		}
	}
	return nil
}

// replaceSym replaces whole-symbol occurrences of sym in t.
func replaceSym(t, sym, with string) string {
	var b strings.Builder
	for i := 0; i < len(t); {
		if strings.HasPrefix(t[i:], sym) {
			before := i == 0 || t[i-1] == ' ' || t[i-1] == '('
			j := i + len(sym)
			after := j >= len(t) || t[j] == ' ' || t[j] == ')'
			if before && after {
				b.WriteString(with)
				i = j
				continue
			}
		}
		b.WriteByte(t[i])
		i++
	}
	return b.String()
}

// loopIndexPhi is the header phi a contract calls the loop variable: the range
// index of a range loop when there is one (go/ssa names it "rangeindex"),
// otherwise the first phi of the header.
func loopIndexPhi(head *ssa.BasicBlock) *ssa.Phi {
	var first *ssa.Phi
	for _, in := range head.Instrs {
		p, ok := in.(*ssa.Phi)
		if !ok {
			break
		}
		if first == nil {
			first = p
		}
		if p.Comment == "rangeindex" {
			return p
		}
	}
	return first
}
