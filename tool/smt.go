package main

import (
	"bytes"
	"context"
	"fmt"
	"os"
	"os/exec"
	"path/filepath"
	"regexp"
	"strings"
	"time"
)

// Solver back ends.  Each obligation is one SMT-LIB file.  z3-new (5.1.0) is
// tried first with a short budget; on unknown/timeout the remaining solvers
// are raced.
type solverSpec struct {
	name string
	argv func(file string, ms int, seed int) []string
}

var solvers = []solverSpec{
	{"z3-new", func(f string, ms, seed int) []string {
		return []string{"z3-new", fmt.Sprintf("-t:%d", ms), fmt.Sprintf("smt.random_seed=%d", seed), fmt.Sprintf("sat.random_seed=%d", seed), f}
	}},
	{"cvc5", func(f string, ms, seed int) []string {
		return []string{"cvc5", fmt.Sprintf("--tlimit=%d", ms), fmt.Sprintf("--seed=%d", seed), "--produce-models", f}
	}},
	{"z3", func(f string, ms, seed int) []string {
		return []string{"z3", fmt.Sprintf("-t:%d", ms), fmt.Sprintf("smt.random_seed=%d", seed), f}
	}},
}

type solveResult struct {
	Status string // unsat | sat | unknown
	Solver string
	Secs   float64
	Output string // full solver output (model on sat)
}

func runSolver(sp solverSpec, file string, ms int, seed int, ctx context.Context) solveResult {
	start := time.Now()
	argv := sp.argv(file, ms, seed)
	cctx, cancel := context.WithTimeout(ctx, time.Duration(ms+3000)*time.Millisecond)
	defer cancel()
	cmd := exec.CommandContext(cctx, argv[0], argv[1:]...)
	var out bytes.Buffer
	cmd.Stdout = &out
	cmd.Stderr = &out
	_ = cmd.Run()
	txt := out.String()
	first := strings.TrimSpace(strings.SplitN(txt, "\n", 2)[0])
	st := "unknown"
	switch first {
	case "unsat":
		st = "unsat"
	case "sat":
		st = "sat"
	}
	return solveResult{Status: st, Solver: sp.name, Secs: time.Since(start).Seconds(), Output: txt}
}

// solve decides one SMT file.  z3-new is tried alone first (it decides almost
// everything that is decidable, and running one process per obligation keeps the
// 16 cores from being oversubscribed); what it leaves undecided is raced on the
// other two solvers, with z3-new continuing alongside.
func solve(file string, budgetMs int, seed int) solveResult {
	first := budgetMs / 2
	if first < 500 {
		first = budgetMs
	}
	r := runSolver(solvers[0], file, first, seed, context.Background())
	if r.Status != "unknown" {
		return r
	}
	spent := r.Secs
	ctx, cancel := context.WithCancel(context.Background())
	defer cancel()
	ch := make(chan solveResult, len(solvers))
	for _, sp := range solvers {
		go func(sp solverSpec) { ch <- runSolver(sp, file, budgetMs, seed+1, ctx) }(sp)
	}
	best := solveResult{Status: "unknown", Solver: "all", Output: r.Output}
	for i := 0; i < len(solvers); i++ {
		rr := <-ch
		if rr.Status != "unknown" {
			cancel()
			rr.Secs += spent
			return rr
		}
		best.Output += "--- " + rr.Solver + "\n" + rr.Output + "\n"
		if rr.Secs > best.Secs {
			best.Secs = rr.Secs
		}
	}
	best.Secs += spent
	return best
}

var smtIdentRe = regexp.MustCompile(`^[A-Za-z_~!@$%^&*+=<>.?/\-][A-Za-z0-9_~!@$%^&*+=<>.?/\-]*$`)

func smtSym(s string) string {
	if smtIdentRe.MatchString(s) {
		return s
	}
	return "|" + strings.ReplaceAll(s, "|", "_") + "|"
}

func sanitize(s string) string {
	var b strings.Builder
	for _, r := range s {
		switch {
		case r >= 'a' && r <= 'z', r >= 'A' && r <= 'Z', r >= '0' && r <= '9', r == '_':
			b.WriteRune(r)
		case r == '*':
			b.WriteString("P")
		case r == '[':
			b.WriteString("L")
		case r == ']':
			b.WriteString("R")
		case r == '.', r == '/':
			b.WriteString("_")
		default:
			b.WriteString("_")
		}
	}
	return b.String()
}

func smtInt(n string) string {
	if strings.HasPrefix(n, "-") {
		return "(- " + n[1:] + ")"
	}
	return n
}

func smtAnd(ts ...string) string {
	var xs []string
	for _, t := range ts {
		if t == "true" || t == "" {
			continue
		}
		if t == "false" {
			return "false"
		}
		xs = append(xs, t)
	}
	switch len(xs) {
	case 0:
		return "true"
	case 1:
		return xs[0]
	}
	return "(and " + strings.Join(xs, " ") + ")"
}

func smtOr(ts ...string) string {
	var xs []string
	for _, t := range ts {
		if t == "false" || t == "" {
			continue
		}
		if t == "true" {
			return "true"
		}
		xs = append(xs, t)
	}
	switch len(xs) {
	case 0:
		return "false"
	case 1:
		return xs[0]
	}
	return "(or " + strings.Join(xs, " ") + ")"
}

func smtNot(t string) string {
	switch t {
	case "true":
		return "false"
	case "false":
		return "true"
	}
	if strings.HasPrefix(t, "(not ") && strings.HasSuffix(t, ")") && balanced(t[5:len(t)-1]) {
		return t[5 : len(t)-1]
	}
	return "(not " + t + ")"
}

func balanced(s string) bool {
	d := 0
	for i := 0; i < len(s); i++ {
		switch s[i] {
		case '(':
			d++
		case ')':
			d--
			if d < 0 {
				return false
			}
		case ' ':
			if d == 0 {
				return false
			}
		}
	}
	return d == 0
}

func smtImp(a, b string) string {
	if a == "true" {
		return b
	}
	if b == "true" {
		return "true"
	}
	return "(=> " + a + " " + b + ")"
}

func smtIte(c, a, b string) string {
	if c == "true" {
		return a
	}
	if c == "false" {
		return b
	}
	return "(ite " + c + " " + a + " " + b + ")"
}

func smtEq(a, b string) string { return "(= " + a + " " + b + ")" }

const smtPrelude = `(set-option :produce-models true)
(set-logic ALL)
(declare-datatypes ((Ref 0)) (((obj (id Int)) (elem (e.arr Ref) (e.idx Int)) (sub (s.base Ref) (s.fld Int)) (boxed (b.kind Int) (b.id Int)))))
(define-fun nil () Ref (obj 0))
(declare-datatypes ((Slice 0)) (((mk-slice (s.arr Ref) (s.off Int) (s.len Int) (s.cap Int)))))
(declare-datatypes ((Iface 0)) (((mk-iface (i.tag Int) (i.val Ref)))))
(define-fun rparent ((r Ref)) Ref (ite ((_ is elem) r) (e.arr r) (ite ((_ is sub) r) (s.base r) r)))
(define-fun-rec at ((r Ref)) Int (ite ((_ is obj) r) (id r) (ite ((_ is boxed) r) (- 1) (ite ((_ is elem) r) (at (e.arr r)) (at (s.base r))))))
(declare-sort Str 0)
(declare-sort F64 0)
(declare-fun slen (Str) Int)
(declare-fun sat (Str Int) Int)
(define-fun add64 ((a Int) (b Int)) Int (let ((s (+ a b))) (ite (> s 9223372036854775807) (- s 18446744073709551616) (ite (< s (- 9223372036854775808)) (+ s 18446744073709551616) s))))
(define-fun sub64 ((a Int) (b Int)) Int (let ((s (- a b))) (ite (> s 9223372036854775807) (- s 18446744073709551616) (ite (< s (- 9223372036854775808)) (+ s 18446744073709551616) s))))
(define-fun wraps ((x Int) (h Int)) Int (- (mod (+ x h) (* 2 h)) h))
(define-fun wrapu ((x Int) (m Int)) Int (mod x m))
(define-fun tdiv ((a Int) (b Int)) Int (ite (>= a 0) (ite (> b 0) (div a b) (- (div a (- b)))) (ite (> b 0) (- (div (- a) b)) (div (- a) (- b)))))
(define-fun trem ((a Int) (b Int)) Int (- a (* b (tdiv a b))))
`

func writeQuery(dir, name string, body string) (string, error) {
	if err := os.MkdirAll(dir, 0o755); err != nil {
		return "", err
	}
	fn := filepath.Join(dir, sanitize(name)+".smt2")
	if len(fn) > 200 {
		fn = filepath.Join(dir, sanitize(name)[:120]+fmt.Sprintf("_%08x", hash32(name))+".smt2")
	}
	return fn, os.WriteFile(fn, []byte(body), 0o644)
}

func hash32(s string) uint32 {
	var h uint32 = 2166136261
	for i := 0; i < len(s); i++ {
		h ^= uint32(s[i])
		h *= 16777619
	}
	return h
}
