package main

import (
	"os/exec"
	"regexp"
	"flag"
	"fmt"
	"os"
	"sort"
	"strings"
	"sync"
	"time"

	"golang.org/x/tools/go/ssa"
)

const verifDir = "/verif"

type OblResult struct {
	O      *Obligation
	R      solveResult
	File   string
	Locked bool
}

func main() {
	// the default go (1.23) cannot load /repo (go 1.25 module); use go1.26.8 offline
	os.Setenv("PATH", "/opt/veriftools/go1.26.8/bin:"+os.Getenv("PATH"))
	os.Setenv("GOFLAGS", "-mod=mod")
	os.Setenv("GOPROXY", "off")
	os.Setenv("GOSUMDB", "off")
	os.Setenv("GOTOOLCHAIN", "local")
	if len(os.Args) < 2 {
		fmt.Fprintln(os.Stderr, "usage: govc check|lock|dump|selftest|replay ...")
		os.Exit(2)
	}
	switch os.Args[1] {
	case "check":
		os.Exit(cmdCheck(os.Args[2:]))
	case "lock":
		os.Exit(cmdLock(os.Args[2:]))
	case "dump":
		os.Exit(cmdDump(os.Args[2:]))
	case "selftest":
		os.Exit(cmdSelftest(os.Args[2:]))
	case "replay":
		os.Exit(cmdReplay(os.Args[2:]))
	case "builtins":
		eng, err := loadEngine("/repo", repoPkgPatterns, nil)
		if err != nil {
			fmt.Println(err)
			os.Exit(2)
		}
		for _, e := range eng.collectBuiltins() {
			fmt.Printf("%s\t%s\t%q\treq=%d opt=%d keys=%d rest=%v\t%s\n", fnPkgPath(e.Fn), targetName(e.Fn, fnPkgPath(e.Fn)), e.Lisp, e.Req, e.Opt, e.Keys, e.Rest, e.Pos)
		}
		os.Exit(0)
	default:
		fmt.Fprintln(os.Stderr, "unknown command", os.Args[1])
		os.Exit(2)
	}
}

// funcsForProperty returns the contracted functions tagged with prop (or all when prop == "").
func (eng *Engine) funcsForProperty(prop string) []*ssa.Function {
	var out []*ssa.Function
	for fn, con := range eng.conOf {
		if con.Trusted != "" || (con.Inline && len(con.Props) == 0) {
			continue
		}
		if prop == "" || hasString(con.Props, prop) {
			out = append(out, fn)
		}
	}
	sort.Slice(out, func(i, j int) bool { return out[i].String() < out[j].String() })
	return out
}

func hasString(xs []string, s string) bool {
	for _, x := range xs {
		if x == s {
			return true
		}
	}
	return false
}

// solveAll discharges obligations in parallel.  Obligations of one function
// share their declarations and assumption prefix, so they are first sent to a
// single incremental z3 process (push/pop per obligation); whatever that pass
// leaves undecided is decided individually by racing the three solvers.
func solveAll(obls []*Obligation, outDir string, budgetMs, seed, workers int) []OblResult {
	res := make([]OblResult, len(obls))
	// group by VC
	groups := map[*VC][]int{}
	var order []*VC
	for i, o := range obls {
		if _, ok := groups[o.vc]; !ok {
			order = append(order, o.vc)
		}
		groups[o.vc] = append(groups[o.vc], i)
	}
	var wg sync.WaitGroup
	sem := make(chan struct{}, workers)
	decided := make([]bool, len(obls))
	if os.Getenv("GOVC_NOBATCH") == "" {
		for _, vc := range order {
			idxs := groups[vc]
			if len(idxs) < 4 {
				continue
			}
			wg.Add(1)
			sem <- struct{}{}
			go func(vc *VC, idxs []int) {
				defer wg.Done()
				defer func() { <-sem }()
				batchSolve(vc, obls, idxs, outDir, budgetMs, seed, res, decided)
			}(vc, idxs)
		}
		wg.Wait()
	}
	for i, o := range obls {
		if decided[i] {
			continue
		}
		wg.Add(1)
		sem <- struct{}{}
		go func(i int, o *Obligation) {
			defer wg.Done()
			defer func() { <-sem }()
			q := o.query()
			file, err := writeQuery(outDir, o.Name, q)
			if err != nil {
				res[i] = OblResult{O: o, R: solveResult{Status: "unknown", Output: err.Error()}}
				return
			}
			if len(q) > 24<<20 {
				res[i] = OblResult{O: o, File: file, R: solveResult{Status: "unknown", Output: "VC too large"}}
				return
			}
			b := budgetMs
			if o.Budget > 0 {
				b = o.Budget
			}
			if o.Cover && b > 1500 {
				b = 1500 // reachability covers: a timeout is merely "undecided"
				if v := os.Getenv("GOVC_COVER_MS"); v != "" {
					fmt.Sscanf(v, "%d", &b)
				}
			}
			r := solve(file, b, seed)
			res[i] = OblResult{O: o, R: r, File: file}
		}(i, o)
	}
	wg.Wait()
	return res
}

// batchSolve runs the obligations idxs (all of one VC) through one incremental
// z3 process.  Only "unsat" answers for proof obligations are accepted from the
// batch; everything else is left to the individual pass (which also produces
// the counter-model).
func batchSolve(vc *VC, obls []*Obligation, idxs []int, outDir string, budgetMs, seed int, res []OblResult, decided []bool) {
	sorted := append([]int(nil), idxs...)
	sort.SliceStable(sorted, func(a, b int) bool { return obls[sorted[a]].Prefix < obls[sorted[b]].Prefix })
	var b strings.Builder
	b.WriteString(obls[sorted[0]].header())
	pos := 0
	var asked []int
	for _, i := range sorted {
		o := obls[i]
		if o.Cover {
			continue
		}
		for ; pos < o.Prefix; pos++ {
			b.WriteString(vc.asserts[pos])
			b.WriteByte('\n')
		}
		fmt.Fprintf(&b, "(push 1)\n(assert %s)\n(assert (not %s))\n(check-sat)\n(pop 1)\n", o.Guard, o.Goal)
		asked = append(asked, i)
	}
	if len(asked) == 0 {
		return
	}
	file, err := writeQuery(outDir, "batch_"+vc.fnName(), b.String())
	if err != nil {
		return
	}
	per := budgetMs / 4
	if per < 500 {
		per = 500
	}
	start := time.Now()
	cmd := exec.Command("z3-new", fmt.Sprintf("-t:%d", per), fmt.Sprintf("smt.random_seed=%d", seed), file)
	out, _ := cmd.Output()
	el := time.Since(start).Seconds()
	lines := strings.Split(strings.TrimSpace(string(out)), "\n")
	var answers []string
	for _, l := range lines {
		l = strings.TrimSpace(l)
		if l == "sat" || l == "unsat" || l == "unknown" || l == "timeout" {
			answers = append(answers, l)
		} else if strings.HasPrefix(l, "(error") {
			return // malformed batch: fall back entirely
		}
	}
	if len(answers) != len(asked) {
		return
	}
	for k, i := range asked {
		if answers[k] == "unsat" {
			res[i] = OblResult{O: obls[i], R: solveResult{Status: "unsat", Solver: "z3-new(batch)", Secs: el / float64(len(asked))}, File: file}
			decided[i] = true
		}
	}
}

func cmdDump(args []string) int {
	fs := flag.NewFlagSet("dump", flag.ExitOnError)
	fnName := fs.String("func", "", "function (contract target, pkg-relative, e.g. lisp::(*CallStack).Pop)")
	prop := fs.String("property", "", "property id")
	verbose := fs.Bool("v", false, "print every obligation")
	budget := fs.Int("ms", 4000, "solver budget")
	mut := fs.String("mutate", "", "file::old::new in-memory rewrite (first occurrence)")
	sweep := fs.Bool("sweep", false, "verify under the C03 builtin-boundary precondition (safety obligations)")
	zz := fs.String("zz", "", "use this file's text in place of /repo/lisp/zz_contracts_verif.go (experiments)")
	fs.Parse(args)
	var overlay map[string][]byte
	if *mut != "" {
		parts := strings.SplitN(*mut, "::", 3)
		src, err := os.ReadFile(parts[0])
		if err != nil {
			fmt.Println(err)
			return 2
		}
		if !strings.Contains(string(src), parts[1]) {
			fmt.Println("mutation pattern not found")
			return 2
		}
		overlay = map[string][]byte{parts[0]: []byte(strings.Replace(string(src), parts[1], parts[2], 1))}
	}
	if *zz != "" {
		b, err := os.ReadFile(*zz)
		if err != nil {
			fmt.Println(err)
			return 2
		}
		if overlay == nil {
			overlay = map[string][]byte{}
		}
		overlay["/repo/lisp/zz_contracts_verif.go"] = b
	}
	start := time.Now()
	eng, err := loadEngine("/repo", repoPkgPatterns, overlay)
	if err != nil {
		fmt.Println("load:", err)
		return 2
	}
	fmt.Printf("loaded in %.1fs; %d contracts, %d errors\n", time.Since(start).Seconds(), len(eng.conOf), len(eng.errors))
	for _, e := range eng.errors {
		fmt.Println("  contract error:", e)
	}
	var fns []*ssa.Function
	if *fnName != "" {
		for fn, con := range eng.conOf {
			if strings.HasSuffix(con.PkgPath, strings.SplitN(*fnName, "::", 2)[0]) && con.Target == strings.SplitN(*fnName, "::", 2)[1] {
				fns = append(fns, fn)
			}
		}
		if len(fns) == 0 {
			// uncontracted function by SSA name
			for n, f := range eng.byName {
				if strings.HasSuffix(n, *fnName) {
					fns = append(fns, f)
				}
			}
		}
	} else {
		fns = eng.funcsForProperty(*prop)
	}
	if os.Getenv("GOVC_WHY") != "" {
		for _, fn := range fns {
			es := eng.inferredEffects(fn)
			fmt.Printf("effects of %s: all=%v vars=%v fresh=%v\n", shortFn(fn), es.all, sortedKeys(es.vars), sortedKeys(es.fresh))
		}
		for f, w := range effWhy {
			fmt.Printf("  %s:%s\n", shortFn(f), w)
		}
		return 0
	}
	var all []*Obligation
	for _, fn := range fns {
		con := eng.conOf[fn]
		if *sweep {
			con = eng.sweepContractFor(fn)
		}
		fr := eng.genFunc(fn, con)
		fmt.Printf("== %s: %d obligations, %d passes, %d asserts\n", shortFn(fn), len(fr.Obls), fr.Passes, len(fr.VC.asserts))
		for _, e := range fr.Errors {
			fmt.Println("   ERROR:", e)
		}
		for _, u := range sortedKeys(fr.VC.unsup) {
			fmt.Println("   unsupported:", u)
		}
		for _, u := range sortedKeys(fr.VC.notes) {
			fmt.Println("   note:", u)
		}
		all = append(all, fr.Obls...)
	}
	for _, f := range eng.cs.Frames {
		if *prop == "" || hasString(f.Props, *prop) {
			r := eng.checkFrame(f)
			fmt.Printf("  frame %-50s ok=%v actual={%s} %s\n", r.Name, r.OK, strings.Join(r.Actual, ", "), r.Detail)
		}
	}
	if *prop != "" {
		for _, it := range eng.sweepItems(*prop) {
			fmt.Printf("  sweep %-70s %-10s %s [%s]\n", it.Name, it.Status, it.Detail, it.Pos)
		}
	}
	for _, im := range eng.cs.Immutable {
		if *prop == "" || hasString(im.Props, *prop) {
			r := eng.checkImmutable(im)
			fmt.Printf("  frame %-50s ok=%v %s\n", r.Name, r.OK, r.Detail)
		}
	}
	t0 := time.Now()
	results := solveAll(all, verifDir+"/out/dump", *budget, 0, 16)
	bad := 0
	for _, r := range results {
		ok := r.R.Status == "unsat"
		if r.O.Cover {
			ok = r.R.Status != "unsat"
		}
		if !ok {
			bad++
		}
		if *verbose || !ok {
			mark := "ok  "
			if !ok {
				mark = "FAIL"
			}
			fmt.Printf("  %s %-7s %5.2fs %-8s %s  [%s]\n", mark, r.R.Status, r.R.Secs, r.R.Solver, r.O.Name, r.O.Pos)
			if !ok {
				fmt.Printf("        file: %s\n", r.File)
				if site := panicSiteOf(r); site != "" {
					fmt.Printf("        panic site: %s\n", site)
				}
			}
		}
	}
	fmt.Printf("%d obligations, %d not discharged, solve wall %.1fs\n", len(results), bad, time.Since(t0).Seconds())
	return 0
}

var panicSelRe = regexp.MustCompile(`\(define-fun panicSel \(\) Int\s+(\d+)\)`)

// panicSiteOf names the panic site selected by a counter-model of an
// on-panic obligation.
func panicSiteOf(r OblResult) string {
	if r.R.Status != "sat" || r.O.vc == nil {
		return ""
	}
	m := panicSelRe.FindStringSubmatch(r.R.Output)
	if m == nil {
		return ""
	}
	var n int
	fmt.Sscanf(m[1], "%d", &n)
	if n >= 1 && n <= len(r.O.vc.panicSites) {
		return fmt.Sprintf("#%d %s", n, r.O.vc.panicSites[n-1])
	}
	return ""
}
