package main

import (
	"fmt"
	"go/token"
	"go/types"
	"sort"
	"strings"

	"golang.org/x/tools/go/packages"
	"golang.org/x/tools/go/ssa"
)

type Term = string

// Engine holds the loaded program and contracts.
type Engine struct {
	entrySet map[*ssa.Function]bool // builtin table entries (tableEntryKeeps)
	pkgs     []*packages.Package
	prog     *ssa.Program
	fset     *token.FileSet
	spkgs    map[string]*ssa.Package
	cs       *ContractSet
	conOf    map[*ssa.Function]*Contract
	allFuncs map[*ssa.Function]bool
	byName   map[string]*ssa.Function // fn.String() -> fn
	errors   []string
	accMemo  map[*ssa.Alloc]int
	errProps map[string][]string // contract-load error -> properties of the contract it belongs to
	effVC    *VC
	effMemo  map[*ssa.Function]*effSet
	addrTaken map[*ssa.Function]bool
	freshMemo map[string]bool
	srcCache  map[string][]string
	overlay   map[string][]byte
}

// Obligation is one proof goal: asserts[0:Prefix] /\ Guard |= Goal.
type Obligation struct {
	Name   string
	Kind   string // ensures | requires | invariant | index | nil | ...
	Func   string
	Prefix int
	Guard  Term
	Goal   Term
	Pos    string
	Props  []string
	vc     *VC
	Cover  bool // a cover obligation is expected to be SAT (reachability)
	Budget int  // per-obligation solver budget override (ms), 0 = default
	Note   string
}

// Val is the symbolic value of an SSA value or of a spec expression.
type Val struct {
	T     Term
	Ty    types.Type
	Place *Place         // pointer to a non-struct field / global: no SMT term
	Tuple []Val          // tuple-typed value
	Fn    *ssa.Function  // statically known function value (closure or bound method)
	Bind  []Val          // captured values / receiver of Fn
	PureFn bool          // function value assumed to modify nothing when called
	Loc   bool           // spec only: T is a ref to a struct value of type Ty stored in memory
	St    *State         // spec only: state for Loc reads
}

// Place is an address that has no first-class SMT term.
type Place struct {
	Kind string // field | global
	Base Term
	Var  string // heap variable name
	Ty   types.Type
}

type State struct {
	reach  Term
	heap   map[string]Term
	locals []localRef // non-escaping local allocations (fields survive havoc)
}

type localRef struct {
	ref Term
	ty  types.Type
}

func (s *State) clone() *State {
	n := &State{reach: s.reach, heap: make(map[string]Term, len(s.heap))}
	for k, v := range s.heap {
		n.heap[k] = v
	}
	n.locals = append(n.locals, s.locals...)
	return n
}

// VC is the verification-condition context of one function under contract.
type VC struct {
	eng       *Engine
	fn        *ssa.Function
	con       *Contract
	decls     []string
	declSet   map[string]bool
	asserts   []string
	obls      []*Obligation
	heapSort  map[string]string
	heapOrder []string
	heapKnown map[string]bool // vars known at the start of this pass
	restart   bool
	nfresh    int
	strConsts map[string]string
	strOrder  []string
	typeIDs   map[string]int
	anonS     []types.Type
	notes     map[string]bool // assumptions / abstractions used
	unsup     map[string]bool // unsupported constructs met
	smtStr    bool
	oblNames  map[string]int
	specDepth int
	entry     *State
	params    map[string]Val
	inlineN   int
	callN     map[string]int
	props     []string
	ghostSeen map[string]bool
	qfacts    []Term
	fieldCodes map[string]int
	statics    map[string]int
	lemmaName  string
	panicStates []*State
	panicSites  []string
	panicking   bool
	recovered   Term
	topFrame    *Frame
	lastRet     map[string][]Val
	retLog      []retEntry       // results of calls of the top frame, in execution order
	verClk      map[Term]Term    // heap version -> clock bound of every reference it holds
	seenFact    map[string]bool
	curReach    Term // path condition of the instruction being executed in the top frame
	usedAxioms  []*AxiomSpec     // axioms of the contract under verification (re-assumed after havocs)
	inAxiom     bool
	inTypeInv   bool
	freshSink   map[string]bool // loop analysis: heap variables written only at fresh objects
	curBlock    *ssa.BasicBlock  // block of the top frame being executed
	siteBlock   *ssa.BasicBlock  // block of the assert-at site being evaluated
	fieldRange  map[string][2]string
	rangeSeen   map[string]bool
	nPanicEdges int
	immutable   map[string]bool
	siteCounted map[string]bool
	seenObl     map[string]bool
	curFrame    *Frame
	curCall     *ssa.CallCommon
	curCaller   *ssa.Function
	curIface    *types.Named
	curMethod   *types.Func
}

func newVC(eng *Engine, fn *ssa.Function, con *Contract, known map[string]string, order []string) *VC {
	vc := &VC{eng: eng, fn: fn, con: con, declSet: map[string]bool{}, heapSort: map[string]string{},
		heapKnown: map[string]bool{}, strConsts: map[string]string{}, typeIDs: map[string]int{},
		notes: map[string]bool{}, unsup: map[string]bool{}, oblNames: map[string]int{}, callN: map[string]int{},
		ghostSeen: map[string]bool{}, fieldCodes: map[string]int{}, statics: map[string]int{}, lastRet: map[string][]Val{}, fieldRange: map[string][2]string{}, rangeSeen: map[string]bool{}, immutable: map[string]bool{}, siteCounted: map[string]bool{}, seenObl: map[string]bool{}}
	if con != nil && con.Strings == "smt" {
		vc.smtStr = true
	}
	for _, k := range order {
		vc.heapSort[k] = known[k]
		vc.heapOrder = append(vc.heapOrder, k)
		vc.heapKnown[k] = true
	}
	return vc
}

func (vc *VC) fresh(base string) string {
	vc.nfresh++
	return fmt.Sprintf("%s!%d", sanitize(base), vc.nfresh)
}

func (vc *VC) decl(key, cmd string) {
	if vc.declSet[key] {
		return
	}
	vc.declSet[key] = true
	vc.decls = append(vc.decls, cmd)
}

func (vc *VC) declConst(name, sort string) string {
	vc.decl("const:"+name, fmt.Sprintf("(declare-const %s %s)", smtSym(name), sort))
	return smtSym(name)
}

func (vc *VC) freshConst(base, sort string) string {
	return vc.declConst(vc.fresh(base), sort)
}

func (vc *VC) assume(t Term) {
	if t == "true" || t == "" {
		return
	}
	if strings.Contains(t, "specerr!") {
		// a contract expression that failed to evaluate is never assumed
		return
	}
	vc.asserts = append(vc.asserts, "(assert "+t+")")
}

func (vc *VC) assumeAt(st *State, t Term) {
	vc.assume(smtImp(st.reach, t))
}

// define introduces a named constant equal to expr (keeps terms small).
func (vc *VC) define(base, sort string, expr Term) Term {
	if len(expr) < 24 && !strings.Contains(expr, " ") {
		return expr
	}
	n := vc.freshConst(base, sort)
	vc.assume(smtEq(n, expr))
	return n
}

// fact records a universally valid fact about term t.  Facts about terms that
// mention a quantifier-bound variable are collected for the enclosing
// quantifier (they become antecedents inside its body).
func (vc *VC) fact(t Term, f Term) {
	if strings.Contains(t, "q_") {
		// Facts about terms under a quantifier are dropped: as antecedents they would
		// make a quantified hypothesis unusable (the solver cannot establish them),
		// and they are never needed for soundness.
		return
	}
	vc.assume(f)
}

func (vc *VC) note(s string)        { vc.notes[s] = true }
func (vc *VC) unsupported(s string) { vc.unsup[s] = true }

func (vc *VC) strSort() string {
	if vc.smtStr {
		return "String"
	}
	return "Str"
}

// ---------------------------------------------------------------- sorts

func (vc *VC) structKey(t types.Type) string {
	if n, ok := types.Unalias(t).(*types.Named); ok {
		pk := ""
		if n.Obj().Pkg() != nil {
			pk = n.Obj().Pkg().Name() + "_"
		}
		s := pk + n.Obj().Name()
		if n.TypeArgs() != nil && n.TypeArgs().Len() > 0 {
			s += "_" + sanitize(n.TypeArgs().At(0).String())
		}
		return s
	}
	for i, a := range vc.anonS {
		if types.Identical(a, t) {
			return fmt.Sprintf("anon%d", i)
		}
	}
	vc.anonS = append(vc.anonS, t)
	return fmt.Sprintf("anon%d", len(vc.anonS)-1)
}

func (vc *VC) sortOf(t types.Type) string {
	switch u := t.Underlying().(type) {
	case *types.Basic:
		switch {
		case u.Info()&types.IsBoolean != 0:
			return "Bool"
		case u.Info()&types.IsInteger != 0:
			return "Int"
		case u.Info()&types.IsFloat != 0:
			return "F64"
		case u.Info()&types.IsString != 0:
			return vc.strSort()
		case u.Kind() == types.UnsafePointer, u.Kind() == types.UntypedNil:
			return "Ref"
		}
		vc.unsupported("basic type " + u.String())
		return "Int"
	case *types.Pointer, *types.Map, *types.Chan, *types.Signature:
		return "Ref"
	case *types.Slice:
		return "Slice"
	case *types.Interface:
		return "Iface"
	case *types.Struct:
		key := vc.structKey(t)
		name := "S_" + key
		if !vc.declSet["struct:"+name] {
			vc.declSet["struct:"+name] = true
			var fs []string
			for i := 0; i < u.NumFields(); i++ {
				fs = append(fs, fmt.Sprintf("(%s %s)", vc.fieldSel(t, i), vc.sortOf(u.Field(i).Type())))
			}
			body := "(mk_" + name
			if len(fs) > 0 {
				body += " " + strings.Join(fs, " ")
			}
			body += ")"
			vc.decls = append(vc.decls, fmt.Sprintf("(declare-datatypes ((%s 0)) ((%s)))", name, body))
		}
		return name
	case *types.Array:
		return "(Array Int " + vc.sortOf(u.Elem()) + ")" // array VALUES are indexed by Int
	case *types.Tuple:
		return "Int"
	case *types.TypeParam:
		vc.unsupported("type parameter")
		return "Int"
	}
	vc.unsupported("type " + t.String())
	return "Int"
}

func (vc *VC) fieldSel(st types.Type, i int) string {
	u := st.Underlying().(*types.Struct)
	return "S_" + vc.structKey(st) + "." + sanitize(u.Field(i).Name())
}

func (vc *VC) zeroOf(t types.Type) Term {
	switch u := t.Underlying().(type) {
	case *types.Basic:
		switch {
		case u.Info()&types.IsBoolean != 0:
			return "false"
		case u.Info()&types.IsInteger != 0:
			return "0"
		case u.Info()&types.IsFloat != 0:
			return vc.floatConst("0")
		case u.Info()&types.IsString != 0:
			return vc.strConst("")
		case u.Kind() == types.UnsafePointer:
			return "nil"
		}
		return "0"
	case *types.Slice:
		return "(mk-slice nil 0 0 0)"
	case *types.Interface:
		return "(mk-iface 0 nil)"
	case *types.Pointer, *types.Map, *types.Chan, *types.Signature:
		return "nil"
	case *types.Struct:
		name := "S_" + vc.structKey(t)
		vc.sortOf(t)
		if u.NumFields() == 0 {
			return "mk_" + name
		}
		var fs []string
		for i := 0; i < u.NumFields(); i++ {
			fs = append(fs, vc.zeroOf(u.Field(i).Type()))
		}
		return "(mk_" + name + " " + strings.Join(fs, " ") + ")"
	case *types.Array:
		return "((as const " + vc.sortOf(t) + ") " + vc.zeroOf(u.Elem()) + ")"
	}
	return "0"
}

func (vc *VC) floatConst(lit string) Term {
	name := "f64c_" + sanitize(lit)
	vc.declConst(name, "F64")
	return name
}

func (vc *VC) strConst(s string) Term {
	if vc.smtStr {
		var b strings.Builder
		b.WriteByte('"')
		for _, r := range []byte(s) {
			switch {
			case r == '"':
				b.WriteString(`""`)
			case r >= 0x20 && r < 0x7f && r != '\\':
				b.WriteByte(r)
			default:
				fmt.Fprintf(&b, "\\u{%x}", r)
			}
		}
		b.WriteByte('"')
		return b.String()
	}
	if n, ok := vc.strConsts[s]; ok {
		return n
	}
	n := fmt.Sprintf("str!%d", len(vc.strConsts))
	vc.strConsts[s] = n
	vc.strOrder = append(vc.strOrder, s)
	vc.declConst(n, "Str")
	return n
}

func (vc *VC) slenOf(t Term) Term {
	if vc.smtStr {
		return "(str.len " + t + ")"
	}
	return "(slen " + t + ")"
}

func (vc *VC) typeID(t types.Type) Term {
	k := types.TypeString(t, nil)
	if id, ok := vc.typeIDs[k]; ok {
		return fmt.Sprint(id)
	}
	id := len(vc.typeIDs) + 1
	vc.typeIDs[k] = id
	return fmt.Sprint(id)
}

func intRange(b *types.Basic) (lo, hi string, ok bool) {
	switch b.Kind() {
	case types.Int, types.Int64:
		return "(- 9223372036854775808)", "9223372036854775807", true
	case types.Int32:
		return "(- 2147483648)", "2147483647", true
	case types.Int16:
		return "(- 32768)", "32767", true
	case types.Int8:
		return "(- 128)", "127", true
	case types.Uint, types.Uint64, types.Uintptr:
		return "0", "18446744073709551615", true
	case types.Uint32:
		return "0", "4294967295", true
	case types.Uint16:
		return "0", "65535", true
	case types.Uint8:
		return "0", "255", true
	}
	return "", "", false
}

// typeInv is the Go type invariant of a value of type t (ranges, slice shape).
func (vc *VC) typeInv(x Term, t types.Type) Term {
	switch u := t.Underlying().(type) {
	case *types.Basic:
		if lo, hi, ok := intRange(u); ok {
			return "(and (<= " + lo + " " + x + ") (<= " + x + " " + hi + "))"
		}
		if u.Info()&types.IsString != 0 {
			return "(and (>= " + vc.slenOf(x) + " 0) (<= " + vc.slenOf(x) + " 281474976710656))"
		}
	case *types.Slice:
		return fmt.Sprintf("(and (>= (s.off %s) 0) (>= (s.len %s) 0) (<= (s.len %s) (s.cap %s)) (<= (s.cap %s) 281474976710656) (=> (= (s.arr %s) nil) (= (s.cap %s) 0)))", x, x, x, x, x, x, x)
	case *types.Struct:
		var cs []string
		for i := 0; i < u.NumFields(); i++ {
			ft := u.Field(i).Type()
			switch ft.Underlying().(type) {
			case *types.Basic, *types.Slice:
				c := vc.typeInv("("+vc.fieldSel(t, i)+" "+x+")", ft)
				if c != "true" {
					cs = append(cs, c)
				}
			}
		}
		vc.sortOf(t)
		return smtAnd(cs...)
	}
	return "true"
}

// allocInv: every reference held in a value is allocated before clk.
func (vc *VC) allocInv(x Term, t types.Type, clk Term) Term {
	switch t.Underlying().(type) {
	case *types.Pointer, *types.Map:
		return "(< (at " + x + ") " + clk + ")"
	case *types.Slice:
		return "(< (at (s.arr " + x + ")) " + clk + ")"
	case *types.Interface:
		return "(< (at (i.val " + x + ")) " + clk + ")"
	}
	return "true"
}

// introduce asserts the invariants of a freshly introduced value.
func (vc *VC) introduce(st *State, x Term, t types.Type) {
	if ti := vc.typeInv(x, t); ti != "true" {
		vc.assume(ti)
	}
	if st != nil {
		if ai := vc.allocInv(x, t, st.heap["CLK"]); ai != "true" {
			vc.assumeAt(st, ai)
		}
		vc.typeInvFact(st, x, t)
	}
}

// ---------------------------------------------------------------- heap variables

func (vc *VC) heapVar(name, sort string) string {
	if _, ok := vc.heapSort[name]; !ok {
		vc.heapSort[name] = sort
		vc.heapOrder = append(vc.heapOrder, name)
		if !vc.heapKnown[name] {
			vc.restart = true
		}
	}
	return name
}

func (vc *VC) fieldVar(st types.Type, i int) string {
	u := st.Underlying().(*types.Struct)
	name := "H_" + vc.structKey(st) + "_" + sanitize(u.Field(i).Name())
	if !vc.rangeSeen[name] {
		vc.rangeSeen[name] = true
		if n, ok := types.Unalias(st).(*types.Named); ok && n.Obj().Pkg() != nil {
			for _, im := range vc.eng.cs.Immutable {
				if im.PkgPath == n.Obj().Pkg().Path() && im.Sel == n.Obj().Name()+"."+u.Field(i).Name() && !im.AuditOnly {
					vc.immutable[name] = true
					vc.note("field " + im.Sel + " is immutable after construction (frame obligation immutable(" + im.Sel + "), " + im.Pos + ")")
				}
			}
		}
		// assumed value range of the field (assume-range), if any
		if n, ok := types.Unalias(st).(*types.Named); ok && n.Obj().Pkg() != nil {
			for _, r := range vc.eng.cs.Ranges {
				if r.PkgPath == n.Obj().Pkg().Path() && r.Sel == n.Obj().Name()+"."+u.Field(i).Name() {
					vc.fieldRange[name] = [2]string{r.Lo, r.Hi}
					vc.note("assumed range of " + r.Sel + ": [" + r.Lo + ", " + r.Hi + ") (" + r.Pos + ")")
				}
			}
		}
	}
	return vc.heapVar(name, "(Array Ref "+vc.sortOf(u.Field(i).Type())+")")
}

// rangeFact: the assumed range of a value read from heap variable hv.
func (vc *VC) rangeFact(hv string, val Term) {
	if r, ok := vc.fieldRange[hv]; ok {
		vc.fact(val, "(and (<= "+smtInt(r[0])+" "+val+") (< "+val+" "+smtInt(r[1])+"))")
	}
}

func (vc *VC) memVar(t types.Type) string {
	name := "Mem_" + sanitize(types.TypeString(t, func(p *types.Package) string { return p.Name() }))
	return vc.heapVar(name, "(Array Ref "+vc.sortOf(t)+")")
}

func (vc *VC) mapVars(t types.Type) (valVar, hasVar string) {
	m := t.Underlying().(*types.Map)
	key := sanitize(types.TypeString(t, func(p *types.Package) string { return p.Name() }))
	ks, vs := vc.sortOf(m.Key()), vc.sortOf(m.Elem())
	return vc.heapVar("MapV_"+key, "(Array Ref (Array "+ks+" "+vs+"))"), vc.heapVar("MapH_"+key, "(Array Ref (Array "+ks+" Bool))")
}

func (vc *VC) globalVar(g *ssa.Global) string {
	el := g.Type().(*types.Pointer).Elem()
	return vc.heapVar("G_"+sanitize(g.Pkg.Pkg.Name()+"_"+g.Name()), vc.sortOf(el))
}

func (vc *VC) ghostVar(name string) string {
	return vc.heapVar("Gh_"+sanitize(name), "Int")
}

// get returns the current version of a heap variable in st.
func (vc *VC) get(st *State, name string) Term {
	if t, ok := st.heap[name]; ok {
		return t
	}
	// first use in this pass: the entry version (pass will be restarted if the
	// variable was not known when the pass began)
	t := vc.declConst(name+"@0", vc.heapSort[name])
	st.heap[name] = t
	return t
}

func (vc *VC) set(st *State, name string, t Term) {
	st.heap[name] = vc.define(name, vc.heapSort[name], t)
	if vc.verClk == nil {
		vc.verClk = map[Term]Term{}
	}
	// every reference held in this version was allocated before the current clock
	vc.verClk[st.heap[name]] = st.heap["CLK"]
}

// clkOfVersion: an upper bound on the allocation time of every reference held
// in the current version of heap variable name (the clock when that version
// was created; the current clock when that is not tracked).
func (vc *VC) clkOfVersion(st *State, name string) Term {
	if c, ok := vc.verClk[st.heap[name]]; ok {
		return c
	}
	return st.heap["CLK"]
}

// typeInvFact assumes the declared `typeinv` of a pointer value in state st.
func (vc *VC) typeInvFact(st *State, x Term, t types.Type) {
	if len(vc.eng.cs.TypeInvs) == 0 || vc.inTypeInv || strings.Contains(x, "q_") {
		return
	}
	pt, ok := t.Underlying().(*types.Pointer)
	if !ok {
		return
	}
	n, ok := types.Unalias(pt.Elem()).(*types.Named)
	if !ok || n.Obj().Pkg() == nil {
		return
	}
	pn, ok := vc.eng.cs.TypeInvs[n.Obj().Pkg().Path()+"."+n.Obj().Name()]
	if !ok {
		return
	}
	p := vc.eng.cs.Preds[pn]
	if p == nil || len(p.Params) != 1 {
		return
	}
	vc.inTypeInv = true
	env := &SpecEnv{vc: vc, fn: nil, pkgPath: p.PkgPath, binds: map[string]Val{p.Params[0]: {T: x, Ty: t}}, cur: st, old: st}
	f := env.boolExpr(p.Expr)
	vc.inTypeInv = false
	vc.assumeAt(st, smtImp("(not (= "+x+" nil))", f))
	vc.note("type invariant " + pn + " assumed for every *" + n.Obj().Name() + " value read")
}

// introduceFrom is introduce for a value just read from heap variable name.
func (vc *VC) introduceFrom(st *State, x Term, t types.Type, name string) {
	if ti := vc.typeInv(x, t); ti != "true" {
		vc.assume(ti)
	}
	if ai := vc.allocInv(x, t, vc.clkOfVersion(st, name)); ai != "true" {
		vc.assumeAt(st, ai)
	}
	vc.typeInvFact(st, x, t)
}

func (vc *VC) initialState() *State {
	st := &State{reach: "true", heap: map[string]Term{}}
	vc.heapVar("CLK", "Int")
	for _, name := range vc.heapOrder {
		if strings.HasPrefix(name, "DF_") {
			st.heap[name] = "false"
			continue
		}
		st.heap[name] = vc.declConst(name+"@0", vc.heapSort[name])
	}
	if vc.verClk == nil {
		vc.verClk = map[Term]Term{}
	}
	for _, name := range vc.heapOrder {
		if name != "CLK" && !strings.HasPrefix(name, "DF_") {
			vc.verClk[st.heap[name]] = st.heap["CLK"]
		}
	}
	return st
}

// havocAll gives every known heap variable a fresh version (unknown callee).
func (vc *VC) havocAll(st *State, why string) {
	old := st.clone()
	for _, name := range vc.heapOrder {
		if name == "CLK" {
			continue
		}
		if strings.HasPrefix(name, "Gh_") || strings.HasPrefix(name, "DF_") {
			continue
		}
		st.heap[name] = vc.havocOne(old, name)
	}
	nclk := vc.freshConst("CLK", "Int")
	vc.assume("(>= " + nclk + " " + old.heap["CLK"] + ")")
	st.heap["CLK"] = nclk
	vc.preserveLocals(old, st)
}

// preserveLocals re-establishes the fields of non-escaping local allocations
// after a havoc.
func (vc *VC) preserveLocals(old, st *State) {
	for _, l := range st.locals {
		vc.copyObject(old, st, l.ref, l.ty)
	}
	// the axioms a contract `uses` are global invariants (assumed, listed in
	// the evidence): they hold again after anything a callee may have done
	if vc.inAxiom {
		return
	}
	vc.inAxiom = true
	for _, ax := range vc.usedAxioms {
		env := &SpecEnv{vc: vc, fn: nil, pkgPath: ax.PkgPath, binds: map[string]Val{}, cur: st, old: st}
		vc.assumeAt(st, env.boolExpr(ax.Expr))
	}
	vc.inAxiom = false
}

func (vc *VC) copyObject(old, st *State, ref Term, t types.Type) {
	switch u := t.Underlying().(type) {
	case *types.Struct:
		for i := 0; i < u.NumFields(); i++ {
			ft := u.Field(i).Type()
			if _, isS := ft.Underlying().(*types.Struct); isS {
				vc.copyObject(old, st, vc.subRef(ref, t, i), ft)
				continue
			}
			hv := vc.fieldVar(t, i)
			a, b := vc.get(old, hv), vc.get(st, hv)
			if a != b {
				vc.assume(fmt.Sprintf("(= (select %s %s) (select %s %s))", b, ref, a, ref))
			}
		}
	default:
		hv := vc.memVar(t)
		a, b := vc.get(old, hv), vc.get(st, hv)
		if a != b {
			vc.assume(fmt.Sprintf("(= (select %s %s) (select %s %s))", b, ref, a, ref))
		}
	}
}

func (vc *VC) subRef(base Term, st types.Type, i int) Term {
	key := "S_" + vc.structKey(st) + "." + st.Underlying().(*types.Struct).Field(i).Name()
	code, ok := vc.fieldCodes[key]
	if !ok {
		code = len(vc.fieldCodes) + 1
		vc.fieldCodes[key] = code
	}
	return fmt.Sprintf("(sub %s %d)", base, code)
}

func (vc *VC) elemRef(arr, idx Term) Term {
	return "(elem " + arr + " " + idx + ")"
}

// loadAt reads a value of type t stored at ref.
func (vc *VC) loadAt(st *State, ref Term, t types.Type) Term {
	switch u := t.Underlying().(type) {
	case *types.Struct:
		name := "S_" + vc.structKey(t)
		vc.sortOf(t)
		if u.NumFields() == 0 {
			return "mk_" + name
		}
		var fs []string
		for i := 0; i < u.NumFields(); i++ {
			fs = append(fs, vc.loadField(st, ref, t, i))
		}
		return "(mk_" + name + " " + strings.Join(fs, " ") + ")"
	case *types.Array:
		// arrays in memory: elements at elem(ref, i); materialise only small arrays
		if u.Len() <= 8 {
			a := "((as const " + vc.sortOf(t) + ") " + vc.zeroOf(u.Elem()) + ")"
			for i := int64(0); i < u.Len(); i++ {
				a = fmt.Sprintf("(store %s %d %s)", a, i, vc.loadAt(st, vc.elemRef(ref, fmt.Sprint(i)), u.Elem()))
			}
			return a
		}
		vc.unsupported("load of large array value")
		return vc.freshConst("arrval", vc.sortOf(t))
	}
	return "(select " + vc.get(st, vc.memVar(t)) + " " + ref + ")"
}

func (vc *VC) loadField(st *State, ref Term, stt types.Type, i int) Term {
	ft := stt.Underlying().(*types.Struct).Field(i).Type()
	switch ft.Underlying().(type) {
	case *types.Struct, *types.Array:
		return vc.loadAt(st, vc.subRef(ref, stt, i), ft)
	}
	return "(select " + vc.get(st, vc.fieldVar(stt, i)) + " " + ref + ")"
}

func (vc *VC) storeAt(st *State, ref Term, t types.Type, v Term) {
	switch u := t.Underlying().(type) {
	case *types.Struct:
		for i := 0; i < u.NumFields(); i++ {
			vc.storeField(st, ref, t, i, "("+vc.fieldSel(t, i)+" "+v+")")
		}
		return
	case *types.Array:
		if u.Len() <= 8 {
			for i := int64(0); i < u.Len(); i++ {
				vc.storeAt(st, vc.elemRef(ref, fmt.Sprint(i)), u.Elem(), fmt.Sprintf("(select %s %d)", v, i))
			}
			return
		}
		vc.unsupported("store of large array value")
		return
	}
	hv := vc.memVar(t)
	vc.set(st, hv, "(store "+vc.get(st, hv)+" "+ref+" "+v+")")
}

func (vc *VC) storeField(st *State, ref Term, stt types.Type, i int, v Term) {
	ft := stt.Underlying().(*types.Struct).Field(i).Type()
	switch ft.Underlying().(type) {
	case *types.Struct, *types.Array:
		vc.storeAt(st, vc.subRef(ref, stt, i), ft, v)
		return
	}
	hv := vc.fieldVar(stt, i)
	vc.set(st, hv, "(store "+vc.get(st, hv)+" "+ref+" "+v+")")
}

// varsOfType lists the heap variables that hold a value of type t stored in memory.
func (vc *VC) varsOfType(t types.Type) []string {
	switch u := t.Underlying().(type) {
	case *types.Struct:
		var out []string
		for i := 0; i < u.NumFields(); i++ {
			ft := u.Field(i).Type()
			switch ft.Underlying().(type) {
			case *types.Struct, *types.Array:
				out = append(out, vc.varsOfType(ft)...)
			default:
				out = append(out, vc.fieldVar(t, i))
			}
		}
		return out
	case *types.Array:
		return vc.varsOfType(u.Elem())
	}
	return []string{vc.memVar(t)}
}

// newObj returns a fresh object reference: obj(clk), and advances the clock.
func (vc *VC) newObj(st *State, base string) Term {
	clk := st.heap["CLK"]
	r := vc.define(base, "Ref", "(obj "+clk+")")
	st.heap["CLK"] = vc.define("CLK", "Int", "(+ "+clk+" 1)")
	return r
}

// allocate returns a fresh reference, zero-initialised for type t.
func (vc *VC) allocate(st *State, t types.Type, base string) Term {
	r := vc.newObj(st, base)
	vc.zeroInit(st, r, t)
	return r
}

func (vc *VC) zeroInit(st *State, r Term, t types.Type) {
	switch u := t.Underlying().(type) {
	case *types.Array:
		if u.Len() <= 8 {
			for i := int64(0); i < u.Len(); i++ {
				vc.storeAt(st, vc.elemRef(r, fmt.Sprint(i)), u.Elem(), vc.zeroOf(u.Elem()))
			}
		} else {
			// large arrays: quantified zero-init is avoided; contents unconstrained
			vc.note("large array allocation left unconstrained")
		}
	default:
		vc.storeAt(st, r, t, vc.zeroOf(t))
	}
}

// ---------------------------------------------------------------- obligations

func (vc *VC) oblige(st *State, kind, anchor string, goal Term, pos token.Pos) *Obligation {
	if goal == "true" {
		return nil
	}
	if strings.Contains(goal, "specerr!") {
		// the clause could not be evaluated against the current code (contract
		// target changed): the obligation fails, nothing is assumed
		goal = "false"
	}
	if safetyKind(kind) {
		// the same run-time check under the same path condition was already obliged
		key := st.reach + "|" + goal
		if vc.seenObl[key] {
			return nil
		}
		vc.seenObl[key] = true
	}
	base := fmt.Sprintf("%s/%s/%s", vc.fnName(), kind, normAnchor(anchor))
	vc.oblNames[base]++
	name := base
	if n := vc.oblNames[base]; n > 1 {
		name = fmt.Sprintf("%s#%d", base, n)
	}
	o := &Obligation{Name: name, Kind: kind, Func: vc.fnName(), Prefix: len(vc.asserts), Guard: st.reach, Goal: goal, vc: vc}
	if pos.IsValid() {
		p := vc.eng.fset.Position(pos)
		o.Pos = fmt.Sprintf("%s:%d", shortFile(p.Filename), p.Line)
	}
	vc.obls = append(vc.obls, o)
	// later code may rely on the obligation (execution continues only if it held)
	vc.assumeAt(st, goal)
	return o
}

func (vc *VC) fnName() string {
	if vc.fn == nil {
		return vc.lemmaName
	}
	return shortFn(vc.fn)
}

func shortFn(fn *ssa.Function) string {
	s := fn.String()
	s = strings.ReplaceAll(s, "github.com/luthersystems/elps/", "")
	return s
}

func normAnchor(s string) string {
	s = strings.Join(strings.Fields(s), " ")
	if len(s) > 140 {
		s = s[:120] + fmt.Sprintf("…%08x", hash32(s))
	}
	return s
}

// header renders the prelude, declarations and string-constant facts of the VC.
func (o *Obligation) header() string {
	q := o.query()
	// everything before the first assumption of the VC body: reuse query() with an
	// empty prefix
	_ = q
	tmp := *o
	tmp.Prefix = 0
	full := tmp.query()
	// strip the guard/goal/check-sat tail (last 4 lines)
	lines := strings.Split(strings.TrimRight(full, "\n"), "\n")
	if len(lines) >= 4 {
		lines = lines[:len(lines)-4]
	}
	return strings.Join(lines, "\n") + "\n"
}

// query renders the SMT-LIB text of one obligation.
func (o *Obligation) query() string {
	vc := o.vc
	var b strings.Builder
	b.WriteString(smtPrelude)
	if vc.smtStr {
		// no extra prelude
	}
	// datatype declarations first (a restart pass re-declares heap variables
	// before the code that introduced their element sorts has run again)
	for _, d := range vc.decls {
		if strings.HasPrefix(d, "(declare-datatypes") {
			b.WriteString(d)
			b.WriteByte('\n')
		}
	}
	for _, d := range vc.decls {
		if !strings.HasPrefix(d, "(declare-datatypes") {
			b.WriteString(d)
			b.WriteByte('\n')
		}
	}
	// string constants: distinct, lengths, bytes
	if len(vc.strOrder) > 0 {
		var names []string
		for _, s := range vc.strOrder {
			n := vc.strConsts[s]
			names = append(names, smtSym(n))
			fmt.Fprintf(&b, "(assert (= (slen %s) %d))\n", smtSym(n), len(s))
			if len(s) <= 24 {
				for i := 0; i < len(s); i++ {
					fmt.Fprintf(&b, "(assert (= (sat %s %d) %d))\n", smtSym(n), i, s[i])
				}
			}
		}
		if len(names) > 1 {
			fmt.Fprintf(&b, "(assert (distinct %s))\n", strings.Join(names, " "))
		}
	}
	for _, a := range vc.asserts[:o.Prefix] {
		b.WriteString(a)
		b.WriteByte('\n')
	}
	fmt.Fprintf(&b, "(assert %s)\n", o.Guard)
	if o.Cover {
		fmt.Fprintf(&b, "(assert %s)\n", o.Goal)
	} else {
		fmt.Fprintf(&b, "(assert (not %s))\n", o.Goal)
	}
	b.WriteString("(check-sat)\n(get-model)\n")
	return b.String()
}

func sortedKeys[V any](m map[string]V) []string {
	var ks []string
	for k := range m {
		ks = append(ks, k)
	}
	sort.Strings(ks)
	return ks
}

// havocOne returns a fresh version of heap variable name.  An immutable field
// keeps its value on every object allocated before the havoc.
func (vc *VC) havocOne(old *State, name string) Term {
	if vc.immutable[name] && strings.HasPrefix(vc.heapSort[name], "(Array Ref ") {
		// an immutable field is only written while its object is fresh: existing
		// objects keep their value, and nothing is known about the array at
		// references not yet allocated, so the same array is a sound model
		return vc.get(old, name)
	}
	return vc.freshConst(name, vc.heapSort[name])
}

type retEntry struct {
	name  string
	block *ssa.BasicBlock
	vals  []Val
	ord   int // ordinal of the call site among the calls to name (execution order of the VC)
	reach Term // path condition under which the call was made
}

// lookupRet: results of the latest call to callee that dominates the current
// assert-at site (or simply the latest one when there is no site).
func (vc *VC) lookupRet(callee string) ([]Val, bool) {
	want := 0
	if i := strings.Index(callee, "#"); i >= 0 {
		fmt.Sscanf(callee[i+1:], "%d", &want)
		callee = callee[:i]
	}
	for i := len(vc.retLog) - 1; i >= 0; i-- {
		e := vc.retLog[i]
		if !calleeMatch(e.name, callee) {
			continue
		}
		if want != 0 && e.ord != want {
			continue
		}
		if vc.siteBlock == nil || e.block == nil || e.block == vc.siteBlock || e.block.Dominates(vc.siteBlock) {
			return e.vals, true
		}
	}
	// No dominating call: take the latest recorded one.  Its result is an
	// unconstrained constant on paths that do not pass through the call, so a
	// clause has to guard its use (ret("Deadline",1) ==> ... ret("Until",0) ...).
	for i := len(vc.retLog) - 1; i >= 0; i-- {
		e := vc.retLog[i]
		if calleeMatch(e.name, callee) && (want == 0 || e.ord == want) {
			return e.vals, true
		}
	}
	return nil, false
}

// f64pair states, for one pair of float terms, how Go's comparison operators
// relate: a total order on non-NaN values, every comparison with a NaN false.
// (Instantiated per compared pair; floats are otherwise uninterpreted.)
func (vc *VC) f64pair(a, b Term) {
	if strings.Contains(a, "q_") || strings.Contains(b, "q_") {
		return
	}
	key := "f64pair:" + a + "|" + b
	if vc.seenFact == nil {
		vc.seenFact = map[string]bool{}
	}
	if vc.seenFact[key] || vc.seenFact["f64pair:"+b+"|"+a] {
		return
	}
	vc.seenFact[key] = true
	vc.decl("fun:f64_eq", "(declare-fun f64_eq (F64 F64) Bool)")
	vc.decl("fun:f64_lt", "(declare-fun f64_lt (F64 F64) Bool)")
	vc.decl("fun:f64_le", "(declare-fun f64_le (F64 F64) Bool)")
	vc.decl("fun:f64_isnan", "(declare-fun f64_isnan (F64) Bool)")
	nan := fmt.Sprintf("(or (f64_isnan %s) (f64_isnan %s))", a, b)
	vc.assume(fmt.Sprintf("(=> %s (and (not (f64_lt %s %s)) (not (f64_le %s %s)) (not (f64_lt %s %s)) (not (f64_le %s %s)) (not (f64_eq %s %s)) (not (f64_eq %s %s))))", nan, a, b, a, b, b, a, b, a, a, b, b, a))
	vc.assume(fmt.Sprintf("(=> (not %s) (and (= (f64_le %s %s) (not (f64_lt %s %s))) (= (f64_le %s %s) (not (f64_lt %s %s))) (= (f64_eq %s %s) (and (f64_le %s %s) (f64_le %s %s))) (= (f64_eq %s %s) (f64_eq %s %s))))", nan, a, b, b, a, b, a, a, b, a, b, a, b, b, a, a, b, b, a))
}

// declI2F declares int64 -> float64 conversion: never NaN, weakly monotone.
func (vc *VC) declI2F() {
	vc.decl("fun:f64_le", "(declare-fun f64_le (F64 F64) Bool)")
	vc.decl("fun:f64_isnan", "(declare-fun f64_isnan (F64) Bool)")
	vc.decl("fun:i2f", "(declare-fun i2f (Int) F64)\n(assert (forall ((n Int)) (! (not (f64_isnan (i2f n))) :pattern ((i2f n)))))\n(assert (forall ((a Int) (b Int)) (! (=> (<= a b) (f64_le (i2f a) (i2f b))) :pattern ((i2f a) (i2f b)))))")
}

// ---------------------------------------------------------------- keeps Type.flag

type keepItem struct {
	name string // obligation anchor
	// fact builds "for object r (and element index i): value in post == value in pre"
	goal func(r, i Term) Term
	elem bool
	fa, ma, mb Term // element items: slice field array (pre), element memory pre/post
}

// keepsItems lists, for `keeps T.flag`, one item per heap variable that
// differs between pre and post: the fields of T on objects whose flag was set
// in pre, and the elements of T's slice-of-pointer fields.
func (vc *VC) keepsItems(con *Contract, sel string, pre, post *State) (flagVar string, items []keepItem) {
	i := strings.LastIndex(sel, ".")
	if i < 0 {
		return "", nil
	}
	st := vc.eng.lookupType(con.PkgPath, sel[:i])
	if st == nil {
		for _, pk := range []string{repoPrefix + "/lisp"} {
			if st = vc.eng.lookupType(pk, sel[:i]); st != nil {
				break
			}
		}
	}
	if st == nil {
		vc.eng.errorf("%s: keeps: unknown type %s (contract target changed)", con.Target, sel[:i])
		return "", nil
	}
	su, ok := st.Underlying().(*types.Struct)
	if !ok {
		return "", nil
	}
	fidx := -1
	for k := 0; k < su.NumFields(); k++ {
		if su.Field(k).Name() == sel[i+1:] {
			fidx = k
		}
	}
	if fidx < 0 {
		vc.eng.errorf("%s: keeps: no field %s (contract target changed)", con.Target, sel)
		return "", nil
	}
	flagVar = vc.fieldVar(st, fidx)
	for k := 0; k < su.NumFields(); k++ {
		ft := su.Field(k).Type()
		switch ft.Underlying().(type) {
		case *types.Struct, *types.Array:
			continue
		}
		hv := vc.fieldVar(st, k)
		a, b := vc.get(pre, hv), vc.get(post, hv)
		if a != b {
			a, b := a, b
			items = append(items, keepItem{name: sel[:i] + "." + su.Field(k).Name(), goal: func(r, _ Term) Term {
				return fmt.Sprintf("(= (select %s %s) (select %s %s))", b, r, a, r)
			}})
		}
		if sl, ok := ft.Underlying().(*types.Slice); ok {
			if _, isPtr := sl.Elem().Underlying().(*types.Pointer); isPtr {
				mv := vc.memVar(sl.Elem())
				ma, mb := vc.get(pre, mv), vc.get(post, mv)
				if ma != mb {
					fa := a
					items = append(items, keepItem{name: "elements and spare capacity of " + sel[:i] + "." + su.Field(k).Name(), elem: true, fa: fa, ma: ma, mb: mb, goal: func(r, ix Term) Term {
						sl := fmt.Sprintf("(select %s %s)", fa, r)
						loc := fmt.Sprintf("(elem (s.arr %s) (+ (s.off %s) %s))", sl, sl, ix)
						return fmt.Sprintf("(=> (and (<= 0 %s) (< %s (s.cap %s))) (= (select %s %s) (select %s %s)))", ix, ix, sl, mb, loc, ma, loc)
					}})
				}
			}
		}
	}
	return flagVar, items
}

// keepsAssume states the `keeps` guarantee of a callee between pre and post.
func (vc *VC) keepsAssume(con *Contract, pre, post *State) {
	for _, sel := range con.Keeps {
		flagVar, items := vc.keepsItems(con, sel, pre, post)
		if flagVar == "" {
			continue
		}
		flag := vc.get(pre, flagVar)
		for _, it := range items {
			if it.elem {
				sl := fmt.Sprintf("(select %s r)", it.fa)
				loc := fmt.Sprintf("(elem (s.arr %s) j)", sl)
				vc.assumeAt(post, fmt.Sprintf("(forall ((r Ref) (j Int)) (! (=> (and (select %s r) (<= (s.off %s) j) (< j (+ (s.off %s) (s.cap %s)))) (= (select %s %s) (select %s %s))) :pattern ((select %s r) (select %s %s))))",
					flag, sl, sl, sl, it.mb, loc, it.ma, loc, flag, it.mb, loc))
				continue
			}
			vc.assumeAt(post, fmt.Sprintf("(forall ((r Ref)) (! (=> (select %s r) %s) :pattern ((select %s r))))", flag, it.goal("r", "0"), flag))
		}
	}
}

// keepsOblige asserts the `keeps` guarantee between pre and st under the name kind/anchor.
func (vc *VC) keepsOblige(con *Contract, pre, st *State, kind string, pos token.Pos) {
	for _, sel := range con.Keeps {
		flagVar, items := vc.keepsItems(con, sel, pre, st)
		if flagVar == "" {
			continue
		}
		flag := vc.get(pre, flagVar)
		for _, it := range items {
			r := vc.freshConst("keep_r", "Ref")
			ix := vc.freshConst("keep_i", "Int")
			closure := "true"
			if it.elem {
				// heap closure: the array a stored slice refers to was allocated
				// before the clock of the state it is stored in
				closure = fmt.Sprintf("(< (at (s.arr (select %s %s))) %s)", it.fa, r, pre.heap["CLK"])
			}
			goal := fmt.Sprintf("(=> (and (< (at %s) %s) (select %s %s) %s) %s)", r, pre.heap["CLK"], flag, r, closure, it.goal(r, ix))
			o := vc.oblige(st, kind, sel+" objects keep "+it.name, goal, pos)
			if o != nil {
				o.Pos = con.Pos
			}
		}
	}
}
