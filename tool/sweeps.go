package main

import (
	"fmt"
	"go/ast"
	"go/constant"
	"go/types"
	"sort"
	"strings"

	"golang.org/x/tools/go/packages"
	"golang.org/x/tools/go/ssa"
)

// BuiltinEntry is one row of a builtin/special-op/macro table:
// a Go function registered together with a Formals(...) literal.
type BuiltinEntry struct {
	Fn      *ssa.Function
	Lisp    string
	Req     int
	Opt     int
	Keys    int
	Rest    bool
	Formals []string
	Pos     string
}

// collectBuiltins scans the syntax of the repository packages for
// `Formals(...)` literals registered next to a function value.
func (eng *Engine) collectBuiltins() []BuiltinEntry {
	var out []BuiltinEntry
	seen := map[*ssa.Function]bool{}
	packages.Visit(eng.pkgs, nil, func(p *packages.Package) {
		if !strings.HasPrefix(p.PkgPath, repoPrefix) || p.TypesInfo == nil {
			return
		}
		for _, f := range p.Syntax {
			ast.Inspect(f, func(n ast.Node) bool {
				var elts []ast.Expr
				switch x := n.(type) {
				case *ast.CompositeLit:
					elts = x.Elts
				case *ast.CallExpr:
					elts = x.Args
				default:
					return true
				}
				for i, e := range elts {
					call, ok := e.(*ast.CallExpr)
					if !ok || !isFormalsCall(p, call) {
						continue
					}
					// the function value is the next element that denotes a func
					for _, cand := range elts[i+1:] {
						fobj := funcObj(p, cand)
						if fobj == nil {
							continue
						}
						fn := eng.prog.FuncValue(fobj)
						if fn == nil || seen[fn] {
							break
						}
						ent := BuiltinEntry{Fn: fn}
						if i > 0 {
							if tv, ok := p.TypesInfo.Types[elts[0]]; ok && tv.Value != nil && tv.Value.Kind() == constant.String {
								ent.Lisp = constant.StringVal(tv.Value)
							}
						}
						if !parseFormalsLit(p, call, &ent) {
							break
						}
						pos := p.Fset.Position(call.Pos())
						ent.Pos = fmt.Sprintf("%s:%d", shortFile(pos.Filename), pos.Line)
						seen[fn] = true
						out = append(out, ent)
						break
					}
				}
				return true
			})
		}
	})
	sort.Slice(out, func(i, j int) bool { return out[i].Fn.String() < out[j].Fn.String() })
	return out
}

func isFormalsCall(p *packages.Package, c *ast.CallExpr) bool {
	switch f := c.Fun.(type) {
	case *ast.Ident:
		return f.Name == "Formals"
	case *ast.SelectorExpr:
		return f.Sel.Name == "Formals"
	}
	return false
}

func funcObj(p *packages.Package, e ast.Expr) *types.Func {
	switch x := e.(type) {
	case *ast.Ident:
		if f, ok := p.TypesInfo.Uses[x].(*types.Func); ok {
			return f
		}
	case *ast.SelectorExpr:
		if f, ok := p.TypesInfo.Uses[x.Sel].(*types.Func); ok {
			return f
		}
	}
	return nil
}

func parseFormalsLit(p *packages.Package, c *ast.CallExpr, ent *BuiltinEntry) bool {
	mode := "req"
	for _, a := range c.Args {
		tv, ok := p.TypesInfo.Types[a]
		if !ok || tv.Value == nil || tv.Value.Kind() != constant.String {
			return false
		}
		s := constant.StringVal(tv.Value)
		ent.Formals = append(ent.Formals, s)
		switch s {
		case "&optional":
			mode = "opt"
		case "&rest":
			mode = "rest"
		case "&key":
			mode = "key"
		default:
			switch mode {
			case "req":
				ent.Req++
			case "opt":
				ent.Opt++
			case "key":
				ent.Keys++
			case "rest":
				ent.Rest = true
			}
		}
	}
	return true
}

// sweepContract synthesises the LBuiltin boundary precondition of a builtin
// from its registered formals (what bind guarantees before calling it).
func (eng *Engine) sweepContract(ent BuiltinEntry) *Contract {
	fn := ent.Fn
	if len(fn.Params) != 2 {
		return nil
	}
	envN, argsN := fn.Params[0].Name(), fn.Params[1].Name()
	n := ent.Req + ent.Opt + ent.Keys
	rel := "=="
	if ent.Rest {
		rel = ">="
	}
	reqs := []string{
		fmt.Sprintf("%s != nil && %s.Runtime != nil && %s.Runtime.Stack != nil && len(%s.Runtime.Stack.Frames) >= 1", envN, envN, envN, envN),
		fmt.Sprintf("%s != nil && len(%s.Cells) %s %d", argsN, argsN, rel, n),
		fmt.Sprintf("forall(j, 0, len(%s.Cells), %s.Cells[j] != nil)", argsN, argsN),
	}
	if envN == "_" || argsN == "_" {
		reqs = nil
	}
	pk := fnPkgPath(fn)
	con := &Contract{Target: targetName(fn, pk), PkgPath: pk, Pos: ent.Pos, Loops: map[int]*LoopSpec{}, Ghosts: map[string]string{}, Props: []string{"C03"}}
	for _, r := range reqs {
		e, err := parseSpecExpr(r)
		if err != nil {
			return nil
		}
		con.Requires = append(con.Requires, Clause{Text: r, Expr: e, Pos: ent.Pos})
	}
	return con
}

func safetyKind(k string) bool {
	switch k {
	case "nil", "index", "slice", "typeassert", "divzero", "makeslice", "nilmap", "panic":
		return true
	}
	return strings.HasPrefix(k, "call ") && (strings.HasSuffix(k, " no-panic") || strings.HasSuffix(k, " requires"))
}
