package main

import (
	"fmt"
	"go/ast"
	"go/constant"
	"go/types"
	"sort"
	"strings"

	"golang.org/x/tools/go/packages"
	"golang.org/x/tools/go/ssa"
)

// BuiltinEntry is one row of a builtin/special-op/macro table:
// a Go function registered together with a Formals(...) literal.
type BuiltinEntry struct {
	Fn      *ssa.Function
	Lisp    string
	Req     int
	Opt     int
	Keys    int
	Rest    bool
	Formals []string
	Pos     string
	// Validator: a libschema validator body, called with the value under
	// validation itself (not an argument list)
	Validator bool
}

// collectBuiltins scans the syntax of the repository packages for
// `Formals(...)` literals registered next to a function value.
func (eng *Engine) collectBuiltins() []BuiltinEntry {
	var out []BuiltinEntry
	seen := map[*ssa.Function]bool{}
	packages.Visit(eng.pkgs, nil, func(p *packages.Package) {
		if !strings.HasPrefix(p.PkgPath, repoPrefix) || p.TypesInfo == nil {
			return
		}
		for _, f := range p.Syntax {
			ast.Inspect(f, func(n ast.Node) bool {
				var elts []ast.Expr
				switch x := n.(type) {
				case *ast.CompositeLit:
					elts = x.Elts
				case *ast.CallExpr:
					elts = x.Args
				default:
					return true
				}
				for i, e := range elts {
					call, ok := e.(*ast.CallExpr)
					if !ok || !isFormalsCall(p, call) {
						continue
					}
					// the function value is the next element that denotes a func
					for _, cand := range elts[i+1:] {
						fobj := funcObj(p, cand)
						if fobj == nil {
							continue
						}
						fn := eng.prog.FuncValue(fobj)
						if fn == nil || seen[fn] {
							break
						}
						ent := BuiltinEntry{Fn: fn}
						if i > 0 {
							if tv, ok := p.TypesInfo.Types[elts[0]]; ok && tv.Value != nil && tv.Value.Kind() == constant.String {
								ent.Lisp = constant.StringVal(tv.Value)
							}
						}
						if !parseFormalsLit(p, call, &ent) {
							break
						}
						pos := p.Fset.Position(call.Pos())
						ent.Pos = fmt.Sprintf("%s:%d", shortFile(pos.Filename), pos.Line)
						seen[fn] = true
						out = append(out, ent)
						break
					}
				}
				return true
			})
		}
	})
	// libschema validator bodies: the function handed to newValidator / newNamedValidator
	for fn := range eng.allFuncs {
		if fnPkgPath(fn) != repoPrefix+"/lisp/lisplib/libschema" {
			continue
		}
		for _, b := range fn.Blocks {
			for _, in := range b.Instrs {
				call, ok := in.(*ssa.Call)
				if !ok {
					continue
				}
				callee := call.Call.StaticCallee()
				if callee == nil || (callee.Name() != "newValidator" && callee.Name() != "newNamedValidator") || len(call.Call.Args) == 0 {
					continue
				}
				body := staticFuncOf(call.Call.Args[len(call.Call.Args)-1])
				if body == nil || seen[body] || len(body.Params) != 2 {
					continue
				}
				seen[body] = true
				pos := eng.fset.Position(call.Pos())
				out = append(out, BuiltinEntry{Fn: body, Validator: true, Pos: fmt.Sprintf("%s:%d", shortFile(pos.Filename), pos.Line)})
			}
		}
	}
	sort.Slice(out, func(i, j int) bool { return out[i].Fn.String() < out[j].Fn.String() })
	return out
}

func isFormalsCall(p *packages.Package, c *ast.CallExpr) bool {
	switch f := c.Fun.(type) {
	case *ast.Ident:
		return f.Name == "Formals"
	case *ast.SelectorExpr:
		return f.Sel.Name == "Formals"
	}
	return false
}

func funcObj(p *packages.Package, e ast.Expr) *types.Func {
	switch x := e.(type) {
	case *ast.Ident:
		if f, ok := p.TypesInfo.Uses[x].(*types.Func); ok {
			return f
		}
	case *ast.SelectorExpr:
		if f, ok := p.TypesInfo.Uses[x.Sel].(*types.Func); ok {
			return f
		}
	}
	return nil
}

func parseFormalsLit(p *packages.Package, c *ast.CallExpr, ent *BuiltinEntry) bool {
	mode := "req"
	for _, a := range c.Args {
		tv, ok := p.TypesInfo.Types[a]
		if !ok || tv.Value == nil || tv.Value.Kind() != constant.String {
			return false
		}
		s := constant.StringVal(tv.Value)
		ent.Formals = append(ent.Formals, s)
		switch s {
		case "&optional":
			mode = "opt"
		case "&rest":
			mode = "rest"
		case "&key":
			mode = "key"
		default:
			switch mode {
			case "req":
				ent.Req++
			case "opt":
				ent.Opt++
			case "key":
				ent.Keys++
			case "rest":
				ent.Rest = true
			}
		}
	}
	return true
}

// sweepContract synthesises the LBuiltin boundary precondition of a builtin
// from its registered formals (what bind guarantees before calling it).
func (eng *Engine) sweepContract(ent BuiltinEntry) *Contract {
	fn := ent.Fn
	if len(fn.Params) != 2 {
		return nil
	}
	envN, argsN := fn.Params[0].Name(), fn.Params[1].Name()
	n := ent.Req + ent.Opt + ent.Keys
	rel := "=="
	if ent.Rest {
		rel = ">="
	}
	reqs := []string{
		fmt.Sprintf("%s != nil && %s.Runtime != nil && %s.Runtime.Stack != nil && len(%s.Runtime.Stack.Frames) >= 1", envN, envN, envN, envN),
		fmt.Sprintf("%s != nil && len(%s.Cells) %s %d", argsN, argsN, rel, n),
		fmt.Sprintf("forall(j, 0, len(%s.Cells), %s.Cells[j] != nil)", argsN, argsN),
	}
	if _, ok := eng.cs.Preds["perCallArgs"]; ok && argsN != "_" {
		// the argument list header is built per call (evalSExprCells / bind) and is never a parsed node
		reqs = append(reqs, fmt.Sprintf("perCallArgs(%s)", argsN))
	}
	if _, ok := eng.cs.Preds["lvalOK"]; ok && pkgHasLVal(fn) {
		// input invariant: every argument is a value as the constructors build it
		reqs = append(reqs, fmt.Sprintf("forall(j, 0, len(%s.Cells), lvalOK(%s.Cells[j]))", argsN, argsN))
	}
	if envN == "_" || argsN == "_" {
		reqs = nil
	}
	if ent.Validator {
		reqs = nil
		if envN != "_" {
			reqs = append(reqs, fmt.Sprintf("%s != nil && %s.Runtime != nil && %s.Runtime.Stack != nil", envN, envN, envN))
		}
		if argsN != "_" {
			reqs = append(reqs, fmt.Sprintf("%s != nil", argsN))
			if _, ok := eng.cs.Preds["lvalOK"]; ok {
				reqs = append(reqs, fmt.Sprintf("lvalOK(%s)", argsN))
			}
		}
	}
	pk := fnPkgPath(fn)
	con := &Contract{Target: targetName(fn, pk), PkgPath: pk, Pos: ent.Pos, Loops: map[int]*LoopSpec{}, Ghosts: map[string]string{}, Props: []string{"C03"}}
	for _, r := range reqs {
		e, err := parseSpecExpr(r)
		if err != nil {
			return nil
		}
		con.Requires = append(con.Requires, Clause{Text: r, Expr: e, Pos: ent.Pos})
	}
	return con
}

func safetyKind(k string) bool {
	switch k {
	case "nil", "index", "slice", "typeassert", "divzero", "makeslice", "nilmap", "panic":
		return true
	}
	return strings.HasPrefix(k, "call ") && (strings.HasSuffix(k, " no-panic") || strings.HasSuffix(k, " requires"))
}

// ---------------------------------------------------------------- C10: map-range obligations

// C10 is about evaluation: the interpreter and its standard library.
var c10Packages = []string{repoPrefix + "/lisp"}

func c10InScope(fn string) bool {
	return !strings.Contains(fn, "lisp/x/")
}

func init() {
	sweepFuncs["C10"] = append(sweepFuncs["C10"], func(eng *Engine) []*Item {
		var out []*Item
		count := map[string]int{}
		for _, s := range eng.mapRanges(c10Packages) {
			if !c10InScope(s.Func) {
				continue
			}
			count[s.Func]++
			name := fmt.Sprintf("maprange/%s#%d", s.Func, count[s.Func])
			it := &Item{Name: name, Backend: "frame", Kind: "sweep", Pos: s.Pos, Detail: s.Class + ": " + s.Why, Func: s.Func, contract: true}
			if reason, ok := eng.cs.MapRangeExempt[s.Func]; ok && s.Class == "unclassified" {
				it.Status = "discharged"
				it.Detail = "EXEMPT (assumption): " + reason
			} else if s.Class == "unclassified" {
				it.Status = "failed"
			} else {
				it.Status = "discharged"
			}
			out = append(out, it)
		}
		nbad := 0
		for _, it := range out {
			if it.Status != "discharged" {
				nbad++
			}
		}
		out = append(out, &Item{Name: "maprange/every-site-order-insensitive", Backend: "frame", Kind: "sweep", Func: "maprange", contract: true,
			Status: map[bool]string{true: "discharged", false: "failed"}[nbad == 0],
			Detail: fmt.Sprintf("%d range-over-map loops in the interpreter and stdlib; %d neither sorted-before-use, keyed-only, argmin nor exempt", len(out), nbad)})
		return out
	})
}

// ---------------------------------------------------------------- C10: no addresses in rendered text

// formatSites: every formatting call in the interpreter and stdlib whose
// constant format contains %p, or that passes a value whose static type
// renders as a Go address under %v (pointer/map/chan/func without a
// String/Error method).
func init() {
	sweepFuncs["C10"] = append(sweepFuncs["C10"], func(eng *Engine) []*Item {
		var out []*Item
		isFormatter := func(f *ssa.Function) bool {
			full := f.String()
			switch full {
			case "fmt.Sprintf", "fmt.Errorf", "fmt.Fprintf", "fmt.Sprint", "fmt.Sprintln", "fmt.Fprint", "fmt.Fprintln":
				return true
			}
			if isRepoFunc(f) {
				switch f.Name() {
				case "Errorf", "ErrorConditionf", "Error", "ErrorCondition":
					return true
				}
			}
			return false
		}
		count := map[string]int{}
		nsites, bad := 0, 0
		for _, fn := range eng.repoFuncs() {
			pp := fnPkgPath(fn)
			if !(pp == repoPrefix+"/lisp" || strings.HasPrefix(pp, repoPrefix+"/lisp/lisplib")) {
				continue
			}
			for _, b := range fn.Blocks {
				for _, in := range b.Instrs {
					call, ok := in.(*ssa.Call)
					if !ok {
						continue
					}
					c := call.Call.StaticCallee()
					if c == nil || !isFormatter(c) {
						continue
					}
					nsites++
					var problems []string
					for _, a := range call.Call.Args {
						if k, ok := a.(*ssa.Const); ok && k.Value != nil && k.Value.Kind() == constant.String {
							f := constant.StringVal(k.Value)
							if strings.Contains(f, "%p") || strings.Contains(f, "%#v") && false {
								problems = append(problems, "format contains %p")
							}
						}
						// variadic arguments: inspect the MakeInterface operands stored in the varargs array
						if sl, ok := a.(*ssa.Slice); ok {
							if al, ok := sl.X.(*ssa.Alloc); ok && al.Referrers() != nil {
								for _, r := range *al.Referrers() {
									ia, ok := r.(*ssa.IndexAddr)
									if !ok || ia.Referrers() == nil {
										continue
									}
									for _, rr := range *ia.Referrers() {
										st, ok := rr.(*ssa.Store)
										if !ok {
											continue
										}
										mi, ok := st.Val.(*ssa.MakeInterface)
										if !ok {
											continue
										}
										if k, isConst := mi.X.(*ssa.Const); isConst && k.Value == nil {
											continue // a constant nil renders as <nil>
										}
										if addrRendering(eng, mi.X.Type()) {
											problems = append(problems, "argument of type "+types.TypeString(mi.X.Type(), func(p *types.Package) string { return p.Name() })+" renders as an address")
										}
									}
								}
							}
						}
					}
					if len(problems) == 0 {
						continue
					}
					bad++
					count[shortFn(fn)]++
					pos := eng.fset.Position(call.Pos())
					out = append(out, &Item{Name: fmt.Sprintf("format/%s#%d", shortFn(fn), count[shortFn(fn)]), Backend: "frame", Kind: "sweep", Status: "failed",
						Pos: fmt.Sprintf("%s:%d", shortFile(pos.Filename), pos.Line), Detail: strings.Join(problems, "; "), Func: shortFn(fn), contract: true})
				}
			}
		}
		out = append(out, &Item{Name: "format/no-address-rendering", Backend: "frame", Kind: "sweep", Func: "format",
			Status: map[bool]string{true: "discharged", false: "failed"}[bad == 0], contract: true,
			Detail: fmt.Sprintf("%d formatting call sites in lisp and lisplib; %d render a Go address", nsites, bad)})
		return out
	})
}

// addrRendering: %v of a value of this static type prints a memory address.
func addrRendering(eng *Engine, t types.Type) bool {
	switch u := t.Underlying().(type) {
	case *types.Pointer:
		ms := eng.prog.MethodSets.MethodSet(t)
		if ms.Lookup(nil, "String") != nil || ms.Lookup(nil, "Error") != nil || ms.Lookup(nil, "Format") != nil {
			return false
		}
		// %v of a pointer to struct prints &{...} (contents), but nested pointers print addresses;
		// a pointer to a non-struct prints the address itself
		if st, ok := u.Elem().Underlying().(*types.Struct); ok {
			for i := 0; i < st.NumFields(); i++ {
				switch st.Field(i).Type().Underlying().(type) {
				case *types.Pointer, *types.Map, *types.Chan, *types.Signature, *types.Interface, *types.Slice:
					return true
				}
			}
			return false
		}
		return true
	case *types.Chan, *types.Signature:
		return true
	case *types.Basic:
		return u.Kind() == types.UnsafePointer || u.Kind() == types.Uintptr
	}
	return false
}

// ---------------------------------------------------------------- C09/C10: package-level state

// globalsSweep: every store to a package-level variable of the interpreter and
// its standard library outside package initialisation must be listed in a
// `global-writer` item of the contract files.
func globalsSweep(eng *Engine) []*Item {
	var out []*Item
	gw := eng.globalWriters([]string{repoPrefix + "/lisp"})
	n, bad := 0, 0
	for _, g := range sortedKeys(gw) {
		if strings.Contains(g, "lisp/x/") {
			continue
		}
		for _, w := range gw[g] {
			n++
			key := g + " <- " + w
			if reason, ok := eng.cs.GlobalWriters[key]; ok {
				out = append(out, &Item{Name: "globals/" + key, Backend: "frame", Kind: "sweep", Status: "discharged", Detail: "ALLOWED (inspected): " + reason, Func: "globals", contract: true})
				continue
			}
			bad++
			out = append(out, &Item{Name: "globals/" + key, Backend: "frame", Kind: "sweep", Status: "failed", Detail: "package-level variable written outside init", Func: "globals", contract: true})
		}
	}
	out = append(out, &Item{Name: "globals/no-unlisted-writer", Backend: "frame", Kind: "sweep", Func: "globals", contract: true,
		Status: map[bool]string{true: "discharged", false: "failed"}[bad == 0],
		Detail: fmt.Sprintf("%d (variable, writer) pairs outside init in lisp and lisplib; %d not listed", n, bad)})
	return out
}

func init() {
	sweepFuncs["C09"] = append(sweepFuncs["C09"], globalsSweep)
	sweepFuncs["C10"] = append(sweepFuncs["C10"], globalsSweep)
}

// pkgHasLVal: the pred lvalOK is written against package lisp's own names
// (unexported fields), so it is only usable for builtins defined there.
func pkgHasLVal(fn *ssa.Function) bool {
	return true
}

// mergedSweepContract: the function's own contract (if any) strengthened by
// the boundary precondition of its table entry; nil when it is not swept.
func (eng *Engine) mergedSweepContract(ent BuiltinEntry) *Contract {
	con := eng.conOf[ent.Fn]
	if con != nil && con.NoSweep {
		return nil
	}
	if sw := eng.sweepContract(ent); sw != nil {
		if con == nil {
			return sw
		}
		merged := *con
		merged.Requires = append(append([]Clause{}, sw.Requires...), con.Requires...)
		return &merged
	}
	return con
}

func (eng *Engine) sweepContractFor(fn *ssa.Function) *Contract {
	for _, ent := range eng.collectBuiltins() {
		if ent.Fn == fn {
			return eng.mergedSweepContract(ent)
		}
	}
	return eng.conOf[fn]
}
