package main

import (
	"fmt"
	"go/constant"
	"go/token"
	"go/types"
	"strings"

	"golang.org/x/tools/go/ssa"
)

// externalKind classifies functions outside the repository (no contract, no
// inlining): "pure" (no effect on modelled memory), "elems" (may write the
// elements of slice arguments), "" (unknown: havoc everything).
func externalKind(fn *ssa.Function) string {
	if fn.Pkg == nil && fn.Object() == nil {
		return ""
	}
	pkg := ""
	if fn.Object() != nil && fn.Object().Pkg() != nil {
		pkg = fn.Object().Pkg().Path()
	} else if fn.Pkg != nil {
		pkg = fn.Pkg.Pkg.Path()
	}
	if strings.HasPrefix(pkg, "github.com/luthersystems/elps") {
		return ""
	}
	name := fn.Name()
	switch pkg {
	case "strconv", "strings", "unicode", "unicode/utf8", "math", "math/bits", "path", "path/filepath", "errors", "time", "bytes", "regexp", "math/big", "unicode/utf16", "html", "slices", "cmp":
		switch {
		case pkg == "strconv" && strings.HasPrefix(name, "Append"):
			return "elems"
		case pkg == "bytes" && fn.Signature.Recv() != nil:
			return "pure" // bytes.Buffer / bytes.Reader methods only touch their own (unmodelled) state
		case pkg == "slices" || pkg == "strings" && fn.Signature.Recv() != nil:
			return "elems"
		}
		return "pure"
	case "log":
		switch name {
		case "Printf", "Print", "Println", "Panicf", "Panic", "Panicln", "Fatalf", "Fatal", "Fatalln":
			return "pure"
		}
	case "fmt":
		switch name {
		case "Sprintf", "Errorf", "Sprint", "Sprintln", "Fprintf", "Fprint", "Fprintln":
			// assumption: formatting verbs call side-effect-free String/Error methods and
			// io.Writer implementations do not write interpreter state
			return "pure"
		}
	case "os":
		switch name {
		case "ReadFile", "Getenv", "Stat", "Lstat":
			return "pure"
		}
	case "sort":
		switch name {
		case "Strings", "Ints", "Float64s":
			return "elems"
		case "SearchStrings", "SearchInts", "StringsAreSorted":
			return "pure"
		}
	case "context":
		return "pure"
	case "sync/atomic":
		// atomic operations write only their own cell, which is not modelled
		// (values read from it are unconstrained)
		return "pure"
	case "runtime":
		switch name {
		case "Stack":
			return "elems"
		}
	case "io":
		switch name {
		case "ReadFull", "ReadAll":
			return "elems"
		}
	}
	return ""
}

// deterministic external functions are modelled as uninterpreted functions of
// their scalar arguments.
func externalDeterministic(fn *ssa.Function) bool {
	if fn.Object() == nil || fn.Object().Pkg() == nil {
		return false
	}
	switch fn.Object().Pkg().Path() {
	case "strconv", "strings", "unicode", "unicode/utf8", "math", "path", "path/filepath", "math/bits":
		return fn.Signature.Recv() == nil
	case "time":
		// functions of the clock are not functions of their arguments
		if fn.Signature.Recv() == nil {
			switch fn.Name() {
			case "Now", "Since", "Until", "Sleep", "NewTimer", "After", "AfterFunc", "Tick", "NewTicker":
				return false
			}
		}
		if r := fn.Signature.Recv(); r != nil {
			if _, isPtr := r.Type().Underlying().(*types.Pointer); isPtr {
				return false
			}
		}
		return true
	case "context":
		return fn.Name() == "Background" || fn.Name() == "TODO"
	case "errors":
		// errors.Is is a function of its two error values (the chains they
		// unwrap to are immutable once built)
		return fn.Name() == "Is"
	}
	return false
}

func isRepoFunc(fn *ssa.Function) bool {
	return strings.HasPrefix(fnPkgPath(fn), repoPrefix)
}

func (eng *Engine) inlinable(fn *ssa.Function, con *Contract) bool {
	if fn == nil || len(fn.Blocks) == 0 {
		return false
	}
	if !isRepoFunc(fn) {
		return false
	}
	if con != nil && con.Inline {
		return true
	}
	if con != nil {
		return false
	}
	if fn.Recover != nil {
		return false
	}
	n := 0
	for _, b := range fn.Blocks {
		for _, s := range b.Succs {
			if backEdge(b, s) {
				return false
			}
		}
		for _, in := range b.Instrs {
			n++
			switch in.(type) {
			case *ssa.Defer, *ssa.Go, *ssa.Select:
				return false
			}
		}
	}
	return n <= 60
}

func (eng *Engine) typeContract(c *ssa.CallCommon) *Contract {
	n, ok := types.Unalias(c.Value.Type()).(*types.Named)
	if !ok || n.Obj().Pkg() == nil {
		return nil
	}
	name := n.Obj().Name()
	if c.IsInvoke() {
		name += "." + c.Method.Name()
	}
	if tc := eng.cs.Types[n.Obj().Pkg().Path()+"::"+name]; tc != nil {
		return tc
	}
	// contract for a foreign type, written `functype pkgname.Type.Method` in any contract file
	suffix := "::" + n.Obj().Pkg().Name() + "." + name
	for _, k := range sortedKeys(eng.cs.Types) {
		if strings.HasSuffix(k, suffix) {
			return eng.cs.Types[k]
		}
	}
	return nil
}

func calleeName(c *ssa.CallCommon) string {
	if c.IsInvoke() {
		return "(" + types.TypeString(c.Value.Type(), func(p *types.Package) string { return p.Name() }) + ")." + c.Method.Name()
	}
	if b, ok := c.Value.(*ssa.Builtin); ok {
		return b.Name()
	}
	if f := c.StaticCallee(); f != nil {
		return shortFn(f)
	}
	return "dynamic:" + types.TypeString(c.Value.Type(), func(p *types.Package) string { return p.Name() })
}

// call executes a call instruction; v is nil for deferred calls.
func (fr *Frame) call(st *State, instr ssa.Instruction, c *ssa.CallCommon, v ssa.Value) bool {
	vc := fr.vc
	var args []Val
	for _, a := range c.Args {
		args = append(args, fr.val(a))
	}
	if b, ok := c.Value.(*ssa.Builtin); ok {
		// assert-at append / copy / delete ... : sites of Go builtins
		fr.assertAt(st, b.Name(), args, instr.Pos())
		return fr.builtin(st, b, c, args, v, instr.Pos())
	}
	name := calleeName(c)
	callee := c.StaticCallee()
	vc.curCall, vc.curCaller, vc.curFrame = c, fr.fn, fr
	defer func() { vc.curCall, vc.curCaller, vc.curFrame = nil, nil, nil }()
	var fnv Val
	if !c.IsInvoke() {
		fnv = fr.val(c.Value)
		if callee == nil && fnv.Fn != nil {
			callee = fnv.Fn
		}
		if callee != nil && len(callee.FreeVars) > 0 {
			// closure call: bindings come from the MakeClosure value
		}
	}
	fr.assertAt(st, name, args, instr.Pos())
	fr.countCall(st, name)
	setResult := func(r []Val) {
		vc.lastRet[name] = r
		if fr.top {
			vc.retLog = append(vc.retLog, retEntry{name, vc.curBlock, r, vc.callN[name], vc.curReach})
		}
		if v == nil {
			return
		}
		if _, isTup := v.Type().(*types.Tuple); isTup {
			fr.vals[v] = Val{Tuple: r, Ty: v.Type()}
		} else if len(r) == 1 {
			r0 := r[0]
			r0.Ty = v.Type()
			fr.vals[v] = r0
		} else {
			fr.vals[v] = Val{T: "0", Ty: v.Type()}
		}
	}
	if callee != nil {
		if fr.special(st, callee, c, args, v, instr.Pos()) {
			return true
		}
		con := vc.eng.conOf[callee]
		if con != nil && !con.Inline {
			setResult(fr.contractCall(st, con, callee, args, fnv.Bind, name, instr.Pos()))
			return true
		}
		if vc.eng.inlinable(callee, con) && fr.depth < 4 {
			res, ok := fr.inlineCall(st, callee, args, fnv.Bind)
			if ok {
				setResult(res)
				return true
			}
			return false // callee never returns on this path
		}
		if k := externalKind(callee); k != "" {
			fr.externalCall(st, callee, k, c, args, v)
			if v != nil {
				fr.recordRet(name, v)
			}
			return true
		}
	} else if tc := vc.eng.typeContract(c); tc != nil {
		targs := args
		if c.IsInvoke() {
			targs = append([]Val{fr.val(c.Value)}, args...)
		}
		if tc.RepoImpls && !tc.ModSet && c.IsInvoke() {
			vc.curIface, vc.curMethod = nil, nil
			if n, ok := types.Unalias(c.Value.Type()).(*types.Named); ok {
				vc.curIface, vc.curMethod = n, c.Method
			}
		}
		setResult(fr.contractCall(st, tc, nil, targs, nil, name, instr.Pos()))
		return true
	}
	// uncontracted callee: havoc its inferred write set (or everything)
	inferredOK := false
	if callee != nil && isRepoFunc(callee) && len(callee.Blocks) > 0 {
		inferredOK = !vc.eng.inferredEffects(callee).all
	}
	if vc.con != nil && vc.con.ModSet && !fr.spec && !inferredOK {
		fr.oblige(st, "frame", "call to "+name+" (unknown write set) inside a function with a modifies clause", "false", instr.Pos())
	}
	fr.mayPanicCallee(st, callee, name, instr.Pos())
	var preKeep *State
	kc := vc.tableEntryKeeps(callee)
	if kc != nil {
		preKeep = st.clone()
	}
	vc.havocCallee(st, callee, name)
	if kc != nil {
		vc.keepsAssume(kc, preKeep, st)
	}
	if v != nil {
		fr.havocVal(st, v)
		fr.recordRet(name, v)
	}
	return true
}

// recordRet remembers the results of the latest call to name (for ret() in contracts).
func (fr *Frame) recordRet(name string, v ssa.Value) {
	r := fr.vals[v]
	vals := []Val{r}
	if r.Tuple != nil {
		vals = r.Tuple
	}
	fr.vc.lastRet[name] = vals
	if fr.top {
		fr.vc.retLog = append(fr.vc.retLog, retEntry{name, fr.vc.curBlock, vals, fr.vc.callN[name], fr.vc.curReach})
	}
}

// assertAt checks the `assert-at callee expr` clauses of the function under verification.
func (fr *Frame) assertAt(st *State, name string, args []Val, pos token.Pos) {
	vc := fr.vc
	if !fr.top || vc.con == nil || fr.spec {
		return
	}
	vc.callN[name]++
	vc.siteBlock = vc.curBlock
	defer func() { vc.siteBlock = nil }()
	srcLine := ""
	for _, a := range vc.con.Asserts {
		key := name
		if i := strings.Index(a.Callee, "~"); i >= 0 {
			// callee~source_line_text : only sites whose source line reads like that
			if !calleeMatch(name, a.Callee[:i]) {
				continue
			}
			if srcLine == "" {
				srcLine = vc.eng.sourceLine(pos)
			}
			want := strings.ReplaceAll(a.Callee[i+1:], "_", " ")
			if strings.Join(strings.Fields(srcLine), " ") != strings.Join(strings.Fields(want), " ") {
				continue
			}
			// ordinal by source order among the lines of this function with that text
			if a.Nth != 0 && a.Nth != vc.eng.lineOrdinal(vc.fn, pos, want) {
				continue
			}
		} else if !calleeMatch(name, a.Callee) {
			continue
		} else if a.Nth != 0 && a.Nth != vc.callN[key] {
			continue
		}
		binds := vc.topBinds()
		for i, av := range args {
			binds[fmt.Sprintf("arg%d", i)] = av
		}
		env := &SpecEnv{vc: vc, fn: vc.fn, binds: binds, cur: st, old: vc.entry}
		if a.Assume {
			vc.assumeAt(st, env.boolExpr(a.Clause.Expr))
			vc.note("ASSUMED at calls to " + a.Callee + " in " + vc.fnName() + " (" + a.Clause.Pos + "): " + a.Clause.Text)
			continue
		}
		o := vc.oblige(st, "assert-at "+a.Callee, a.Clause.label(), env.boolExpr(a.Clause.Expr), pos)
		if o != nil {
			o.Note = a.Clause.Pos
		}
	}
}

func calleeMatch(full, pat string) bool {
	if full == pat {
		return true
	}
	// suffix match on the unqualified name: "lisp.(*LEnv).Eval" matches "(*LEnv).Eval" and "Eval"
	if strings.HasSuffix(full, "."+pat) || strings.HasSuffix(full, ")."+pat) {
		return true
	}
	if i := strings.Index(full, "."); i >= 0 && full[i+1:] == pat {
		return true
	}
	return false
}

func (fr *Frame) countCall(st *State, name string) {
	vc := fr.vc
	if !fr.top || vc.con == nil || fr.spec {
		return
	}
	for _, c := range vc.con.Counts {
		if calleeMatch(name, c.Callee) {
			g := vc.ghostVar(c.Ghost)
			vc.set(st, g, "(+ "+vc.get(st, g)+" 1)")
		}
	}
}

func (vc *VC) topBinds() map[string]Val {
	b := map[string]Val{}
	for k, v := range vc.params {
		b[k] = v
	}
	return b
}

// inlineCall symbolically executes a small loop-free callee in place.
func (fr *Frame) inlineCall(st *State, callee *ssa.Function, args []Val, binds []Val) ([]Val, bool) {
	vc := fr.vc
	sub := vc.newFrame(callee, fr.depth+1, fr.spec)
	if fr.depth > 0 {
		sub.site = fr.site
	} else {
		sub.site = fr.curPos
	}
	sub.bindParams(args)
	for i, fv := range callee.FreeVars {
		if i < len(binds) {
			sub.vals[fv] = binds[i]
		}
	}
	in := st.clone()
	sub.run(in)
	fr.panics = append(fr.panics, sub.panics...)
	if len(sub.rets) == 0 {
		return nil, false
	}
	var states []*State
	for _, r := range sub.rets {
		states = append(states, r.st)
	}
	m := vc.merge(states)
	// results
	nres := callee.Signature.Results().Len()
	res := make([]Val, nres)
	for i := 0; i < nres; i++ {
		rt := callee.Signature.Results().At(i).Type()
		same := true
		for _, r := range sub.rets[1:] {
			if r.vals[i].T != sub.rets[0].vals[i].T || r.vals[i].Place != nil {
				same = false
			}
		}
		if same && sub.rets[0].vals[i].Place == nil {
			res[i] = sub.rets[0].vals[i]
			res[i].Ty = rt
			continue
		}
		n := vc.freshConst(sub.prefix+"ret", vc.sortOf(rt))
		for _, r := range sub.rets {
			if r.vals[i].Place != nil {
				vc.unsupported("returning a field address")
				continue
			}
			vc.assume(smtImp(r.st.reach, smtEq(n, r.vals[i].T)))
		}
		res[i] = Val{T: n, Ty: rt}
	}
	// continue in the merged state
	*st = *m
	return res, true
}

// contractCall: assert requires, havoc modifies, assume ensures.
func (fr *Frame) contractCall(st *State, con *Contract, callee *ssa.Function, args []Val, closureBinds []Val, name string, pos token.Pos) []Val {
	vc := fr.vc
	binds := map[string]Val{}
	var sig *types.Signature
	if callee != nil {
		sig = callee.Signature
		for i, p := range callee.Params {
			if i < len(args) {
				a := args[i]
				a.Ty = p.Type()
				binds[p.Name()] = a
			}
		}
		for i, fv := range callee.FreeVars {
			if i < len(closureBinds) {
				binds[fv.Name()] = closureBinds[i]
			}
		}
	} else {
		// type contract: parameters are named arg0..argN, receiver "self"
		for i, a := range args {
			binds[fmt.Sprintf("arg%d", i)] = a
		}
	}
	for i, a := range args {
		if _, ok := binds[fmt.Sprintf("arg%d", i)]; !ok {
			binds[fmt.Sprintf("arg%d", i)] = a
		}
	}
	pre := st.clone()
	if !fr.spec {
		for _, rq := range con.Requires {
			env := &SpecEnv{vc: vc, fn: callee, pkgPath: con.PkgPath, binds: binds, cur: pre, old: pre}
			o := vc.oblige(st, "call "+name+" requires", rq.label(), env.boolExpr(rq.Expr), pos)
			if o != nil && fr.depth > 0 {
				o.Note = "in inlined " + shortFn(fr.fn)
			}
		}
		for _, pw := range con.Panics {
			env := &SpecEnv{vc: vc, fn: callee, pkgPath: con.PkgPath, binds: binds, cur: pre, old: pre}
			vc.oblige(st, "call "+name+" no-panic", "!("+pw.label()+")", smtNot(env.boolExpr(pw.Expr)), pos)
		}
	}
	if con.Trusted != "" {
		vc.note("trusted contract: " + con.Target + " — " + con.Trusted)
	}
	// panic edge (before the normal post-state is built)
	if !con.NoPanic && !con.Pure {
		fr.mayPanic(pre, con, callee, binds, name, pos)
	}
	// post-state
	if !con.Pure {
		fr.applyModifies(st, pre, con, callee, binds)
	}
	// results
	var res []Val
	var rtypes []types.Type
	if sig != nil {
		for i := 0; i < sig.Results().Len(); i++ {
			rtypes = append(rtypes, sig.Results().At(i).Type())
		}
	} else if s, ok := con.sigOf(vc.eng); ok {
		for i := 0; i < s.Results().Len(); i++ {
			rtypes = append(rtypes, s.Results().At(i).Type())
		}
	}
	for i, rt := range rtypes {
		n := vc.freshConst(fr.prefix+"res_"+sanitize(name), vc.sortOf(rt))
		vc.introduce(st, n, rt)
		rv := Val{T: n, Ty: rt}
		if con.ResultFuncPure {
			rv.PureFn = true
		}
		res = append(res, rv)
		binds[fmt.Sprintf("result%d", i)] = rv
		if i == 0 {
			binds["result"] = rv
		}
	}
	if callee != nil {
		if named := namedResults(callee); named != nil {
			for i, nm := range named {
				if nm != "" && nm != "_" && i < len(res) {
					binds[nm] = res[i]
				}
			}
		}
	}
	for _, en := range con.Ensures {
		env := &SpecEnv{vc: vc, fn: callee, pkgPath: con.PkgPath, binds: binds, cur: st, old: pre}
		vc.assumeAt(st, env.boolExpr(en.Expr))
	}
	if len(con.Keeps) > 0 && !con.Pure {
		vc.keepsAssume(con, pre, st)
	}
	return res
}

func namedResults(fn *ssa.Function) []string {
	var out []string
	any := false
	for i := 0; i < fn.Signature.Results().Len(); i++ {
		n := fn.Signature.Results().At(i).Name()
		out = append(out, n)
		if n != "" {
			any = true
		}
	}
	if !any {
		return nil
	}
	return out
}

func (con *Contract) sigOf(eng *Engine) (*types.Signature, bool) {
	if !con.IsType {
		return nil, false
	}
	parts := strings.Split(con.Target, ".")
	var scopes []*types.Package
	for _, p := range eng.pkgs {
		if p.PkgPath == con.PkgPath {
			scopes = append(scopes, p.Types)
		}
	}
	try := func(pk *types.Package, tname, method string) (*types.Signature, bool) {
		obj := pk.Scope().Lookup(tname)
		if obj == nil {
			return nil, false
		}
		if method != "" {
			o, _, _ := types.LookupFieldOrMethod(obj.Type(), true, pk, method)
			if f, ok := o.(*types.Func); ok {
				return f.Type().(*types.Signature), true
			}
			return nil, false
		}
		s, ok := obj.Type().Underlying().(*types.Signature)
		return s, ok
	}
	switch len(parts) {
	case 1:
		for _, pk := range scopes {
			if s, ok := try(pk, parts[0], ""); ok {
				return s, true
			}
		}
	case 2:
		for _, pk := range scopes {
			if s, ok := try(pk, parts[0], parts[1]); ok {
				return s, true
			}
		}
		for _, pk := range eng.allPkgs() {
			if pk.Name() == parts[0] {
				if s, ok := try(pk, parts[1], ""); ok {
					return s, true
				}
			}
		}
	case 3:
		for _, pk := range eng.allPkgs() {
			if pk.Name() == parts[0] {
				if s, ok := try(pk, parts[1], parts[2]); ok {
					return s, true
				}
			}
		}
	}
	return nil, false
}

// modVars resolves one `modifies` entry to whole heap variables.
func (vc *VC) modVars(con *Contract, callee *ssa.Function, m string) ([]string, bool) {
	if m == "*" {
		return nil, true
	}
	if m == "fresh" {
		return nil, false
	}
	// the cell a pointer refers to: *expr
	if strings.HasPrefix(m, "*") && len(m) > 1 {
		if t := vc.eng.specType(con.PkgPath, callee, m[1:]); t != nil {
			if pt, ok := t.Underlying().(*types.Pointer); ok {
				return vc.varsOfType(pt.Elem()), false
			}
		}
		vc.eng.errorf("%s: cannot resolve modifies entry %q", con.Target, m)
		return nil, true
	}
	// spare capacity of a slice (elements between its length and capacity): spare(expr)
	if strings.HasPrefix(m, "spare(") && strings.HasSuffix(m, ")") {
		if t := vc.eng.specType(con.PkgPath, callee, m[6:len(m)-1]); t != nil {
			if sl, ok := t.Underlying().(*types.Slice); ok {
				return vc.varsOfType(sl.Elem()), false
			}
		}
		vc.eng.errorf("%s: cannot resolve modifies entry %q", con.Target, m)
		return nil, true
	}
	// elements of a slice: expr[*]
	if strings.HasSuffix(m, "[*]") {
		if t := vc.eng.specType(con.PkgPath, callee, strings.TrimSuffix(m, "[*]")); t != nil {
			if sl, ok := t.Underlying().(*types.Slice); ok {
				return vc.varsOfType(sl.Elem()), false
			}
		}
		vc.eng.errorf("%s: cannot resolve modifies entry %q", con.Target, m)
		return nil, true
	}
	i := strings.LastIndex(m, ".")
	if i < 0 {
		// ghost or global
		if _, ok := con.Ghosts[m]; ok {
			return []string{vc.ghostVar(m)}, false
		}
		if g := vc.eng.lookupGlobal(con.PkgPath, m); g != nil {
			return []string{vc.globalVar(g)}, false
		}
		vc.eng.errorf("%s: cannot resolve modifies entry %q", con.Target, m)
		return nil, true
	}
	head, field := m[:i], m[i+1:]
	var st types.Type
	if tn := vc.eng.lookupType(con.PkgPath, head); tn != nil {
		st = tn
	} else if t := vc.eng.specType(con.PkgPath, callee, head); t != nil {
		st = t
		if p, ok := t.Underlying().(*types.Pointer); ok {
			st = p.Elem()
		}
	}
	if st == nil {
		vc.eng.errorf("%s: cannot resolve modifies entry %q", con.Target, m)
		return nil, true
	}
	su, ok := st.Underlying().(*types.Struct)
	if !ok {
		vc.eng.errorf("%s: modifies entry %q is not a struct field", con.Target, m)
		return nil, true
	}
	if field == "*" {
		return vc.varsOfType(st), false
	}
	for k := 0; k < su.NumFields(); k++ {
		if su.Field(k).Name() == field {
			ft := su.Field(k).Type()
			switch ft.Underlying().(type) {
			case *types.Struct, *types.Array:
				return vc.varsOfType(ft), false
			}
			return []string{vc.fieldVar(st, k)}, false
		}
	}
	vc.eng.errorf("%s: modifies entry %q: no such field (contract target changed)", con.Target, m)
	return nil, true
}

// modLocation: for `expr.field` entries where expr is not a type name, the
// single modified location (base reference).  ok=false means whole-variable.
func (vc *VC) modLocation(con *Contract, callee *ssa.Function, m string, binds map[string]Val, pre *State) (Term, bool) {
	if strings.HasPrefix(m, "spare(") && strings.HasSuffix(m, ")") {
		// a range of references: returned as a predicate over the placeholder ?r
		e, err := parseSpecExpr(m[6 : len(m)-1])
		if err != nil {
			return "", false
		}
		env := &SpecEnv{vc: vc, fn: callee, pkgPath: con.PkgPath, binds: binds, cur: pre, old: pre}
		v := env.eval(e)
		if v.T == "" {
			return "", false
		}
		s := vc.define("spare", "Slice", v.T)
		return fmt.Sprintf("RANGE:(and ((_ is elem) ?r) (= (e.arr ?r) (s.arr %s)) (<= (+ (s.off %s) (s.len %s)) (e.idx ?r)) (< (e.idx ?r) (+ (s.off %s) (s.cap %s))))", s, s, s, s, s), true
	}
	if strings.HasSuffix(m, "[*]") || m == "*" || m == "fresh" {
		return "", false
	}
	if strings.HasPrefix(m, "*") {
		e, err := parseSpecExpr(m[1:])
		if err != nil {
			return "", false
		}
		env := &SpecEnv{vc: vc, fn: callee, pkgPath: con.PkgPath, binds: binds, cur: pre, old: pre}
		v := env.eval(e)
		if v.T == "" {
			return "", false
		}
		return v.T, true
	}
	i := strings.LastIndex(m, ".")
	if i < 0 {
		return "", false
	}
	head, field := m[:i], m[i+1:]
	if field == "*" || vc.eng.lookupType(con.PkgPath, head) != nil {
		return "", false
	}
	e, err := parseSpecExpr(head)
	if err != nil {
		return "", false
	}
	env := &SpecEnv{vc: vc, fn: callee, pkgPath: con.PkgPath, binds: binds, cur: pre, old: pre}
	v := env.eval(e)
	if v.T == "" {
		return "", false
	}
	return v.T, true
}

func (fr *Frame) applyModifies(st, pre *State, con *Contract, callee *ssa.Function, binds map[string]Val) {
	vc := fr.vc
	if !con.ModSet {
		if con.RepoImpls && vc.curIface != nil && callee == nil {
			if vc.havocImpls(st, vc.curIface, vc.curMethod, con.Target) {
				return
			}
		}
		vc.havocCallee(st, callee, con.Target)
		return
	}
	whole := map[string]bool{}
	locs := map[string][]Term{}
	for _, m := range con.Modifies {
		vars, all := vc.modVars(con, callee, m)
		if all {
			vc.havocAll(st, con.Target)
			return
		}
		if loc, ok := vc.modLocation(con, callee, m, binds, pre); ok && len(vars) == 1 {
			locs[vars[0]] = append(locs[vars[0]], loc)
			continue
		}
		for _, v := range vars {
			whole[v] = true
		}
	}
	for _, name := range sortedKeys(whole) {
		st.heap[name] = vc.havocOne(pre, name)
	}
	for _, name := range sortedKeys(locs) {
		if whole[name] {
			continue
		}
		cur := vc.get(st, name)
		sortS := vc.heapSort[name]
		elemSort := strings.TrimSuffix(strings.TrimPrefix(sortS, "(Array Ref "), ")")
		var ranges []Term
		for _, l := range locs[name] {
			if strings.HasPrefix(l, "RANGE:") {
				ranges = append(ranges, strings.TrimPrefix(l, "RANGE:"))
				continue
			}
			nv := vc.freshConst(name+"_at", elemSort)
			cur = "(store " + cur + " " + l + " " + nv + ")"
		}
		if len(ranges) > 0 {
			// everything outside the ranges keeps the value it has in cur
			nh := vc.freshConst(name, sortS)
			var in []Term
			for _, rg := range ranges {
				in = append(in, strings.ReplaceAll(rg, "?r", "r"))
			}
			vc.assumeAt(st, fmt.Sprintf("(forall ((r Ref)) (! (=> (not %s) (= (select %s r) (select %s r))) :pattern ((select %s r))))", smtOr(in...), nh, cur, nh))
			cur = nh
		}
		vc.set(st, name, cur)
	}
	for g := range con.Ghosts {
		gv := vc.ghostVar(g)
		old := vc.get(st, gv)
		st.heap[gv] = vc.freshConst(gv, "Int")
		vc.assume("(>= " + st.heap[gv] + " " + old + ")")
	}
	nclk := vc.freshConst("CLK", "Int")
	vc.assume("(>= " + nclk + " " + pre.heap["CLK"] + ")")
	st.heap["CLK"] = nclk
	vc.preserveLocals(pre, st)
}

// wantsPanicEdges: panic edges are modelled for functions that make a claim
// about panicking exits (ensures-on-panic, nopanic) or that recover.
func (fr *Frame) wantsPanicEdges() bool {
	vc := fr.vc
	if fr.spec || vc.con == nil {
		return false
	}
	return len(vc.con.OnPanic) > 0 || vc.con.NoPanic || vc.fn.Recover != nil || len(vc.con.Keeps) > 0
}

// mayPanic records the panic edge of a call: the state in which the callee
// panicked (callee's modifies applied, its ensures-on-panic assumed).  The
// edges of a function are merged and handled once, in finishPanics.
func (fr *Frame) mayPanic(pre *State, con *Contract, callee *ssa.Function, binds map[string]Val, name string, pos token.Pos) {
	vc := fr.vc
	if !fr.wantsPanicEdges() || fr.inDefer > 0 {
		return
	}
	ps := pre.clone()
	ps.reach = vc.define("panicedge", "Bool", smtAnd(pre.reach, vc.panicChoice()))
	if con != nil && con.ModSet {
		fr.applyModifies(ps, pre, con, callee, binds)
	} else {
		vc.havocCallee(ps, callee, name)
		if con == nil {
			if kc := vc.tableEntryKeeps(callee); kc != nil {
				vc.keepsAssume(kc, pre, ps)
			}
		}
	}
	if con != nil {
		for _, en := range con.OnPanic {
			env := &SpecEnv{vc: vc, fn: callee, pkgPath: con.PkgPath, binds: binds, cur: ps, old: pre}
			vc.assumeAt(ps, env.boolExpr(en.Expr))
		}
		// `keeps` holds on panicking exits too (it is proved there as well)
		if len(con.Keeps) > 0 {
			vc.keepsAssume(con, pre, ps)
		}
	}
	vc.panicSites = append(vc.panicSites, "call "+name)
	vc.panicStates = append(vc.panicStates, ps)
}

// panicIf records a panic edge for a failed run-time check (index, nil, ...).
func (fr *Frame) panicIf(st *State, cond Term, what string) {
	vc := fr.vc
	if !fr.wantsPanicEdges() || cond == "false" {
		return
	}
	ps := st.clone()
	ps.reach = vc.define("panicedge", "Bool", smtAnd(st.reach, cond, vc.panicChoice()))
	vc.panicSites = append(vc.panicSites, what)
	vc.panicStates = append(vc.panicStates, ps)
}

// finishPanics merges the panic edges of the function under verification, runs
// its deferred calls in panicking mode and either resumes at the recover block
// (when a deferred call recovered) or checks the ensures-on-panic clauses.
func (fr *Frame) finishPanics() {
	vc := fr.vc
	if !fr.wantsPanicEdges() || len(vc.panicStates) == 0 {
		return
	}
	ps := vc.merge(vc.panicStates)
	vc.panicStates = nil
	vc.panicking = true
	vc.recovered = "false"
	fr.runDefers(ps, true)
	vc.panicking = false
	rec := vc.recovered
	if fr.fn.Recover != nil && rec != "false" {
		// control resumes at the recover block with the named results
		rs := ps.clone()
		rs.reach = vc.define("recovered", "Bool", smtAnd(ps.reach, rec))
		if vc.eng.cs.GhostNames["recovered"] {
			// ghost: this activation resumed at its recover block
			g := vc.ghostVar("recovered")
			vc.set(rs, g, "(+ "+vc.get(rs, g)+" 1)")
		}
		for _, instr := range fr.fn.Recover.Instrs {
			if !fr.step(rs, instr) {
				break
			}
		}
	}
	esc := ps.clone()
	esc.reach = vc.define("panic_escapes", "Bool", smtAnd(ps.reach, smtNot(rec)))
	if vc.con.NoPanic {
		// the name is independent of how many sites there are (harmless edits add or remove some)
		o := vc.oblige(esc, "nopanic", "no panic escapes", "false", fr.fn.Pos())
		if o != nil {
			o.Pos = vc.con.Pos
			o.Note = fmt.Sprintf("%d panic sites: ", len(vc.panicSites)) + strings.Join(vc.panicSites, "; ")
		}
		return
	}
	for _, op := range vc.con.OnPanic {
		env := &SpecEnv{vc: vc, fn: vc.fn, binds: vc.topBinds(), cur: esc, old: vc.entry}
		o := vc.oblige(esc, "ensures-on-panic", op.label(), env.boolExpr(op.Expr), fr.fn.Pos())
		if o != nil {
			o.Pos = op.Pos
		}
	}
	if len(vc.con.Keeps) > 0 {
		vc.keepsOblige(vc.con, vc.entry, esc, "keeps-on-panic", fr.fn.Pos())
	}
}

// runDefers executes the deferred calls, newest first.  Whether a defer
// statement was executed on the current path is the state flag DF_k.
func (fr *Frame) runDefers(st *State, panicking bool) {
	vc := fr.vc
	for i := len(fr.defers) - 1; i >= 0; i-- {
		d := fr.defers[i]
		if !d.seen {
			continue
		}
		flag := vc.get(st, d.flag)
		if flag == "false" {
			continue
		}
		branch := st.clone()
		branch.reach = vc.define("deferrun", "Bool", smtAnd(st.reach, flag))
		skip := st.clone()
		skip.reach = vc.define("deferskip", "Bool", smtAnd(st.reach, smtNot(flag)))
		c := &d.instr.Call
		if b, ok := c.Value.(*ssa.Builtin); ok {
			fr.builtin(branch, b, c, d.args, nil, d.instr.Pos())
		} else {
			fr.deferredCall(branch, d, panicking)
		}
		if flag == "true" {
			*st = *branch
			continue
		}
		m := vc.merge([]*State{branch, skip})
		*st = *m
	}
}

func (fr *Frame) deferredCall(st *State, d *deferRec, panicking bool) {
	vc := fr.vc
	c := &d.instr.Call
	name := calleeName(c)
	callee := c.StaticCallee()
	if callee == nil && d.fnv.Fn != nil {
		callee = d.fnv.Fn
	}
	if callee != nil {
		con := vc.eng.conOf[callee]
		if con != nil && !con.Inline {
			fr.inDefer++
			fr.contractCall(st, con, callee, d.args, d.fnv.Bind, name, d.instr.Pos())
			fr.inDefer--
			return
		}
		if vc.eng.inlinable(callee, con) || (callee.Parent() == fr.fn && vc.eng.loopFree(callee)) {
			fr.inDefer++
			fr.inlineCall(st, callee, d.args, d.fnv.Bind)
			fr.inDefer--
			return
		}
	}
	if d.fnv.PureFn {
		vc.note("assumed: the func value returned by a `result-func-pure` contract modifies nothing when called (" + name + ")")
		return
	}
	vc.note("deferred call to uncontracted " + name + " havocs the heap")
	vc.havocAll(st, name)
}

// externalCall models a call to a function outside the repository.
func (fr *Frame) externalCall(st *State, callee *ssa.Function, kind string, c *ssa.CallCommon, args []Val, v ssa.Value) {
	vc := fr.vc
	// documented panics of standard-library functions are safety obligations
	switch callee.String() {
	case "strings.Repeat", "bytes.Repeat":
		if len(args) == 2 {
			var n Term
			if isString(c.Args[0].Type()) {
				n = vc.slenOf(args[0].T)
			} else {
				n = "(s.len " + args[0].T + ")"
			}
			fr.oblige(st, "panic", callee.String()+": count is not negative", "(>= "+args[1].T+" 0)", c.Pos())
			fr.oblige(st, "panic", callee.String()+": output length does not overflow", "(<= (* "+n+" "+args[1].T+") 9223372036854775807)", c.Pos())
		}
	}
	if kind == "elems" {
		for _, a := range c.Args {
			if sl, ok := a.Type().Underlying().(*types.Slice); ok {
				for _, hv := range vc.varsOfType(sl.Elem()) {
					st.heap[hv] = vc.freshConst(hv, vc.heapSort[hv])
				}
			}
		}
	}
	if v == nil {
		return
	}
	// deterministic functions of scalar arguments become uninterpreted functions
	if externalDeterministic(callee) && kind == "pure" {
		scalar := true
		var sorts, terms []string
		variadic := ""
		for i, a := range c.Args {
			switch a.Type().Underlying().(type) {
			case *types.Basic, *types.Struct, *types.Interface:
				sorts = append(sorts, vc.sortOf(a.Type()))
				terms = append(terms, args[i].T)
			default:
				// a literal variadic argument list f(a, b, c...) of scalars is expanded
				if elems, ok := fr.varargElems(st, a); ok && i == len(c.Args)-1 {
					for _, e := range elems {
						sorts = append(sorts, vc.sortOf(e.Ty))
						terms = append(terms, e.T)
					}
					variadic = fmt.Sprintf("_v%d", len(elems))
				} else {
					scalar = false
				}
			}
		}
		if scalar {
			fname := extName(callee) + variadic
			mk := func(suffix string, rt types.Type) Val {
				fn := fname + suffix
				vc.decl("fun:"+fn, fmt.Sprintf("(declare-fun %s (%s) %s)", fn, strings.Join(sorts, " "), vc.sortOf(rt)))
				t := fn
				if len(terms) > 0 {
					t = "(" + fn + " " + strings.Join(terms, " ") + ")"
				}
				n := vc.define(fr.prefix+v.Name(), vc.sortOf(rt), t)
				vc.introduce(st, n, rt)
				return Val{T: n, Ty: rt}
			}
			if tup, ok := v.Type().(*types.Tuple); ok {
				var vs []Val
				for i := 0; i < tup.Len(); i++ {
					vs = append(vs, mk(fmt.Sprintf("_%d", i), tup.At(i).Type()))
				}
				fr.vals[v] = Val{Tuple: vs, Ty: v.Type()}
			} else {
				fr.vals[v] = mk("", v.Type())
			}
			vc.note("stdlib function modelled as an uninterpreted deterministic function: " + strings.TrimPrefix(extName(callee), "ext_"))
			fr.externalFacts(st, callee, args, v)
			return
		}
	}
	fr.havocVal(st, v)
	fr.externalFacts(st, callee, args, v)
}

// externalFacts adds the assumed stdlib contracts (DESIGN §3(3)).
func (fr *Frame) externalFacts(st *State, callee *ssa.Function, args []Val, v ssa.Value) {
	vc := fr.vc
	if callee.Object() == nil || callee.Object().Pkg() == nil {
		return
	}
	full := callee.Object().Pkg().Path() + "." + callee.Name()
	r := fr.vals[v]
	switch full {
	case "unicode/utf8.DecodeRuneInString", "unicode/utf8.DecodeRune", "unicode/utf8.DecodeLastRuneInString", "unicode/utf8.DecodeLastRune":
		if len(r.Tuple) == 2 {
			var n Term
			if isString(args[0].Ty) || isStringVal(fr, args[0]) {
				n = vc.slenOf(args[0].T)
			} else {
				n = "(s.len " + args[0].T + ")"
			}
			size := r.Tuple[1].T
			vc.assume(fmt.Sprintf("(and (<= 0 %s) (<= %s 4) (<= %s %s) (=> (> %s 0) (>= %s 1)))", size, size, size, n, n, size))
			vc.note("assumed contract utf8.DecodeRune*: 0<=size<=4, size<=len, size>=1 when len>0")
		}
	case "time.NewTimer", "time.NewTicker", "context.Background", "context.TODO", "strings.NewReader", "bytes.NewReader", "bytes.NewBuffer", "bytes.NewBufferString":
		if r.T != "" && vc.sortOf(r.Ty) == "Ref" {
			vc.assume("(not (= " + r.T + " nil))")
		} else if r.T != "" && vc.sortOf(r.Ty) == "Iface" {
			vc.assume("(not (= (i.tag " + r.T + ") 0))")
		}
	case "runtime.Stack":
		if r.T != "" && len(args) > 0 {
			vc.assume(fmt.Sprintf("(and (>= %s 1) (<= %s (s.len %s)))", r.T, r.T, args[0].T))
			vc.note("assumed contract runtime.Stack: 1 <= n <= len(buf)")
		}
	case "errors.New":
		vc.assume("(not (= (i.tag " + r.T + ") 0))")
		vc.note("assumed contract errors.New/fmt.Errorf: the result is a non-nil error")
	case "fmt.Sprintf", "fmt.Errorf":
		if full == "fmt.Errorf" {
			vc.assume("(not (= (i.tag " + r.T + ") 0))")
			vc.note("assumed contract errors.New/fmt.Errorf: the result is a non-nil error")
		}
		// a format that starts with literal text yields a non-empty result
		if c, ok := fr.argConst(v, 0); ok && len(c) > 0 && c[0] != '%' && full == "fmt.Sprintf" {
			vc.assume("(>= " + vc.slenOf(r.T) + " 1)")
			vc.note("assumed contract fmt.Sprintf: a format beginning with literal text yields a non-empty string")
			// ... that begins with that text (up to the first verb)
			lit := c
			if i := strings.IndexByte(lit, '%'); i >= 0 {
				lit = lit[:i]
			}
			if len(lit) > 16 {
				lit = lit[:16]
			}
			if vc.smtStr {
				vc.assume("(str.prefixof " + vc.strConst(lit) + " " + r.T + ")")
			} else {
				vc.assume(fmt.Sprintf("(>= %s %d)", vc.slenOf(r.T), len(lit)))
				for i := 0; i < len(lit); i++ {
					vc.assume(fmt.Sprintf("(= (sat %s %d) %d)", r.T, i, lit[i]))
				}
			}
			vc.note("assumed contract fmt.Sprintf: the result begins with the literal text that precedes the first verb of a constant format")
		}
	case "path/filepath.EvalSymlinks":
		if len(r.Tuple) == 2 {
			vc.decl("fun:uf_isRealPath", "(declare-fun uf_isRealPath ("+vc.strSort()+") Bool)")
			vc.assume(smtImp(smtEq(r.Tuple[1].T, "(mk-iface 0 nil)"), "(uf_isRealPath "+r.Tuple[0].T+")"))
			vc.note("assumed contract filepath.EvalSymlinks: a successful result is a link-free real path (isRealPath)")
		}
	case "strings.HasPrefix":
		if vc.smtStr {
			vc.assume(smtEq(r.T, "(str.prefixof "+args[1].T+" "+args[0].T+")"))
		}
	case "strings.HasSuffix":
		if vc.smtStr {
			vc.assume(smtEq(r.T, "(str.suffixof "+args[1].T+" "+args[0].T+")"))
		}
	case "strings.TrimPrefix":
		if vc.smtStr {
			p, s := args[1].T, args[0].T
			vc.assume(smtEq(r.T, fmt.Sprintf("(ite (str.prefixof %s %s) (str.substr %s (str.len %s) (- (str.len %s) (str.len %s))) %s)", p, s, s, p, s, p, s)))
		}
	}
}

func isStringVal(fr *Frame, v Val) bool { return v.Ty != nil && isString(v.Ty) }

// special handles a few functions with built-in models.
func (fr *Frame) special(st *State, callee *ssa.Function, c *ssa.CallCommon, args []Val, v ssa.Value, pos token.Pos) bool {
	vc := fr.vc
	if callee.Object() == nil || callee.Object().Pkg() == nil {
		return false
	}
	full := callee.Object().Pkg().Path() + "." + callee.Name()
	if callee.Signature.Recv() != nil {
		full = callee.String()
	}
	switch full {
	case "log.Panicf", "log.Panic", "log.Panicln", "log.Fatalf", "log.Fatal", "log.Fatalln", "os.Exit":
		if !fr.spec {
			goal := "false"
			if vc.con != nil && len(vc.con.Panics) > 0 {
				var cs []Term
				for _, p := range vc.con.Panics {
					env := &SpecEnv{vc: vc, fn: vc.fn, binds: vc.topBinds(), cur: vc.entry, old: vc.entry}
					cs = append(cs, env.boolExpr(p.Expr))
				}
				goal = smtOr(cs...)
			}
			fr.oblige(st, "panic", "unreachable: "+callee.Name(), goal, pos)
			// execution does not continue
			vc.assumeAt(st, "false")
		}
		return true
	case "sync/atomic.AddUint64", "sync/atomic.AddInt64", "sync/atomic.AddUint32", "sync/atomic.AddInt32":
		// fetch-and-add on a field or cell
		a := args[0]
		rt := callee.Signature.Results().At(0).Type()
		var cur Term
		if a.Place != nil {
			if a.Place.Kind == "global" {
				cur = vc.get(st, a.Place.Var)
			} else {
				cur = "(select " + vc.get(st, a.Place.Var) + " " + a.Place.Base + ")"
			}
		} else {
			cur = vc.loadAt(st, a.T, rt)
		}
		nv := vc.define(fr.prefix+"atomicadd", "Int", vc.wrap("(+ "+cur+" "+args[1].T+")", rt))
		if a.Place != nil {
			if a.Place.Kind == "global" {
				vc.set(st, a.Place.Var, nv)
			} else {
				vc.set(st, a.Place.Var, "(store "+vc.get(st, a.Place.Var)+" "+a.Place.Base+" "+nv+")")
			}
		} else {
			vc.storeAt(st, a.T, rt, nv)
		}
		if v != nil {
			fr.vals[v] = Val{T: nv, Ty: v.Type()}
		}
		vc.note("assumed contract: atomic.Add* is a fetch-and-add")
		return true
	}
	return false
}

// ---------------------------------------------------------------- builtins

func (fr *Frame) builtin(st *State, b *ssa.Builtin, c *ssa.CallCommon, args []Val, v ssa.Value, pos token.Pos) bool {
	vc := fr.vc
	switch b.Name() {
	case "len":
		a := args[0]
		switch u := c.Args[0].Type().Underlying().(type) {
		case *types.Slice:
			fr.defineVal(v, "(s.len "+a.T+")")
		case *types.Basic:
			fr.defineVal(v, vc.slenOf(a.T))
		case *types.Map:
			_, hv := vc.mapVars(c.Args[0].Type())
			ks := vc.sortOf(u.Key())
			fn := "maplen_" + sanitize(ks)
			vc.decl("fun:"+fn, fmt.Sprintf("(declare-fun %s ((Array %s Bool)) Int)", fn, ks))
			fr.defineVal(v, smtIte("(= "+a.T+" nil)", "0", "("+fn+" (select "+vc.get(st, hv)+" "+a.T+"))"))
			vc.assume("(>= " + fr.vals[v].T + " 0)")
		case *types.Array:
			fr.defineVal(v, fmt.Sprint(u.Len()))
		case *types.Pointer:
			fr.defineVal(v, fmt.Sprint(u.Elem().Underlying().(*types.Array).Len()))
		default:
			fr.havocVal(st, v)
			vc.assume("(>= " + fr.vals[v].T + " 0)")
		}
	case "cap":
		a := args[0]
		switch u := c.Args[0].Type().Underlying().(type) {
		case *types.Slice:
			fr.defineVal(v, "(s.cap "+a.T+")")
		case *types.Array:
			fr.defineVal(v, fmt.Sprint(u.Len()))
		default:
			fr.havocVal(st, v)
		}
	case "append":
		fr.appendB(st, c, args, v, pos)
	case "copy":
		fr.copyB(st, c, args, v)
	case "delete":
		m := args[0]
		_, hv := vc.mapVars(c.Args[0].Type())
		ch := vc.get(st, hv)
		vc.set(st, hv, fmt.Sprintf("(store %s %s (store (select %s %s) %s false))", ch, m.T, ch, m.T, args[1].T))
	case "panic":
		fr.oblige(st, "panic", "unreachable: panic", "false", pos)
		return false
	case "print", "println":
	case "min", "max":
		if v != nil && len(args) == 2 && isInteger(v.Type()) {
			op := "<="
			if b.Name() == "max" {
				op = ">="
			}
			fr.defineVal(v, smtIte("("+op+" "+args[0].T+" "+args[1].T+")", args[0].T, args[1].T))
		} else if v != nil {
			fr.havocVal(st, v)
		}
	case "recover":
		if v != nil {
			if vc.panicking {
				// a panic is in flight: recover returns its (non-nil) value
				fr.havocVal(st, v)
				vc.assume("(not (= (i.tag " + fr.vals[v].T + ") 0))")
				vc.recovered = smtOr(vc.recovered, st.reach)
			} else {
				fr.vals[v] = Val{T: "(mk-iface 0 nil)", Ty: v.Type()}
			}
		}
	default:
		vc.unsupported("builtin " + b.Name())
		if v != nil {
			fr.havocVal(st, v)
		}
	}
	return true
}

// appendB: exact Go append semantics.
func (fr *Frame) appendB(st *State, c *ssa.CallCommon, args []Val, v ssa.Value, pos token.Pos) {
	vc := fr.vc
	s := args[0]
	sl, _ := c.Args[0].Type().Underlying().(*types.Slice)
	if sl == nil {
		fr.havocVal(st, v)
		return
	}
	el := sl.Elem()
	var n Term // number of appended elements
	var srcArr, srcOff Term
	fromString := false
	if isString(c.Args[1].Type()) {
		n = vc.slenOf(args[1].T)
		fromString = true
	} else {
		n = "(s.len " + args[1].T + ")"
		srcArr, srcOff = "(s.arr "+args[1].T+")", "(s.off "+args[1].T+")"
	}
	n = vc.define(fr.prefix+"app_n", "Int", n)
	fits := vc.define(fr.prefix+"app_fits", "Bool", fmt.Sprintf("(<= (+ (s.len %s) %s) (s.cap %s))", s.T, n, s.T))
	newArr := vc.newObj(st, fr.prefix+"app_arr")
	newCap := vc.freshConst(fr.prefix+"app_cap", "Int")
	newLen := "(+ (s.len " + s.T + ") " + n + ")"
	vc.assume(fmt.Sprintf("(and (>= %s %s) (<= %s 281474976710656))", newCap, newLen, newCap))
	// Go: append with zero new elements returns the slice unchanged
	res := fmt.Sprintf("(ite %s (mk-slice (s.arr %s) (s.off %s) %s (s.cap %s)) (mk-slice %s 0 %s %s))", fits, s.T, s.T, newLen, s.T, newArr, newLen, newCap)
	res = smtIte("(= "+n+" 0)", s.T, res)
	if v != nil {
		fr.defineVal(v, res)
	} else {
		return
	}
	r := fr.vals[v].T
	// element memory: new versions with the copied/written elements
	for _, hv := range vc.varsOfType(el) {
		oldH := vc.get(st, hv)
		newH := vc.freshConst(hv, vc.heapSort[hv])
		// frame: everything outside the written window is unchanged
		// written window: elem(r.arr, r.off + j) for oldlen <= j < newlen ; and when
		// reallocated additionally 0 <= j < oldlen (copied).
		vc.assumeAt(st, fmt.Sprintf(
			"(forall ((p Ref)) (! (=> (not (and ((_ is elem) p) (= (e.arr p) (s.arr %s)) (>= (e.idx p) (+ (s.off %s) (ite %s (s.len %s) 0))) (< (e.idx p) (+ (s.off %s) (s.len %s))))) (= (select %s p) (select %s p))) :pattern ((select %s p))))",
			r, r, fits, s.T, r, r, newH, oldH, newH))
		// copied prefix when reallocated (trigger: a read of the new memory at an
		// element of the new array)
		vc.assumeAt(st, fmt.Sprintf(
			"(=> (and (not %s) (> %s 0)) (forall ((k Int)) (! (=> (and (<= 0 k) (< k (s.len %s))) (= (select %s (elem %s k)) (select %s (elem (s.arr %s) (+ (s.off %s) k))))) :pattern ((select %s (elem %s k))))))",
			fits, n, s.T, newH, newArr, oldH, s.T, s.T, newH, newArr))
		// appended elements, by absolute index k into the result's array
		if !fromString {
			lo := fmt.Sprintf("(+ (s.off %s) (s.len %s))", r, s.T)
			vc.assumeAt(st, fmt.Sprintf(
				"(forall ((k Int)) (! (=> (and (<= %s k) (< k (+ %s %s))) (= (select %s (elem (s.arr %s) k)) (select %s (elem %s (+ %s (- k %s)))))) :pattern ((select %s (elem (s.arr %s) k)))))",
				lo, lo, n, newH, r, oldH, srcArr, srcOff, lo, newH, r))
			// the common single-element case, instantiated explicitly
			vc.assumeAt(st, fmt.Sprintf("(=> (>= %s 1) (= (select %s (elem (s.arr %s) (+ (s.off %s) (s.len %s)))) (select %s (elem %s %s))))",
				n, newH, r, r, s.T, oldH, srcArr, srcOff))
		}
		st.heap[hv] = newH
	}
	// make elem facts available for the instantiated terms
	vc.elemRef("(s.arr "+r+")", "(+ (s.off "+r+") (s.len "+s.T+"))")
	if !fromString {
		vc.elemRef(srcArr, srcOff)
	}
}

func (fr *Frame) copyB(st *State, c *ssa.CallCommon, args []Val, v ssa.Value) {
	vc := fr.vc
	dst, src := args[0], args[1]
	sl, _ := c.Args[0].Type().Underlying().(*types.Slice)
	var srcLen Term
	fromString := isString(c.Args[1].Type())
	if fromString {
		srcLen = vc.slenOf(src.T)
	} else {
		srcLen = "(s.len " + src.T + ")"
	}
	n := vc.define(fr.prefix+"copy_n", "Int", smtIte("(<= (s.len "+dst.T+") "+srcLen+")", "(s.len "+dst.T+")", srcLen))
	if v != nil {
		fr.vals[v] = Val{T: n, Ty: v.Type()}
	}
	if sl == nil {
		return
	}
	for _, hv := range vc.varsOfType(sl.Elem()) {
		oldH := vc.get(st, hv)
		newH := vc.freshConst(hv, vc.heapSort[hv])
		vc.assumeAt(st, fmt.Sprintf(
			"(forall ((p Ref)) (! (=> (not (and ((_ is elem) p) (= (e.arr p) (s.arr %s)) (>= (e.idx p) (s.off %s)) (< (e.idx p) (+ (s.off %s) %s)))) (= (select %s p) (select %s p))) :pattern ((select %s p))))",
			dst.T, dst.T, dst.T, n, newH, oldH, newH))
		if !fromString {
			vc.assumeAt(st, fmt.Sprintf(
				"(forall ((k Int)) (! (=> (and (<= (s.off %s) k) (< k (+ (s.off %s) %s))) (= (select %s (elem (s.arr %s) k)) (select %s (elem (s.arr %s) (+ (s.off %s) (- k (s.off %s))))))) :pattern ((select %s (elem (s.arr %s) k)))))",
				dst.T, dst.T, n, newH, dst.T, oldH, src.T, src.T, dst.T, newH, dst.T))
		}
		st.heap[hv] = newH
	}
}

func (eng *Engine) loopFree(fn *ssa.Function) bool {
	if len(fn.Blocks) == 0 {
		return false
	}
	for _, b := range fn.Blocks {
		for _, s := range b.Succs {
			if backEdge(b, s) {
				return false
			}
		}
		for _, in := range b.Instrs {
			switch in.(type) {
			case *ssa.Defer, *ssa.Go, *ssa.Select:
				return false
			}
		}
	}
	return true
}

// argConst returns the constant string passed as argument i of call v.
func (fr *Frame) argConst(v ssa.Value, i int) (string, bool) {
	call, ok := v.(*ssa.Call)
	if !ok || i >= len(call.Call.Args) {
		return "", false
	}
	c, ok := call.Call.Args[i].(*ssa.Const)
	if !ok || c.Value == nil || c.Value.Kind() != constant.String {
		return "", false
	}
	return constant.StringVal(c.Value), true
}

// varargElems recognises the SSA shape of a literal variadic argument list
// (slice of a fresh [N]T array filled by stores in the same block) and returns
// the element values.
func (fr *Frame) varargElems(st *State, a ssa.Value) ([]Val, bool) {
	vc := fr.vc
	if c, ok := a.(*ssa.Const); ok && c.Value == nil {
		return nil, true // f(x) with no variadic arguments
	}
	sl, ok := a.(*ssa.Slice)
	if !ok || sl.Low != nil || sl.High != nil {
		return nil, false
	}
	al, ok := sl.X.(*ssa.Alloc)
	if !ok || al.Comment != "varargs" {
		return nil, false
	}
	arr, ok := al.Type().Underlying().(*types.Pointer).Elem().Underlying().(*types.Array)
	if !ok || arr.Len() > 6 {
		return nil, false
	}
	if _, isBasic := arr.Elem().Underlying().(*types.Basic); !isBasic {
		return nil, false
	}
	base := fr.val(al).T
	var out []Val
	for k := int64(0); k < arr.Len(); k++ {
		out = append(out, Val{T: vc.loadAt(st, vc.elemRef(base, fmt.Sprint(k)), arr.Elem()), Ty: arr.Elem()})
	}
	return out, true
}

// extName is the SMT symbol of the uninterpreted function that models a
// deterministic stdlib function or value-receiver method.
func extName(fn *ssa.Function) string {
	name := fn.Object().Pkg().Name() + "_"
	if r := fn.Signature.Recv(); r != nil {
		name += types.TypeString(r.Type(), func(*types.Package) string { return "" }) + "_"
	}
	return "ext_" + sanitize(name+fn.Name())
}

// mayPanicCallee: panic edge of a call to an uncontracted callee.
func (fr *Frame) mayPanicCallee(pre *State, callee *ssa.Function, name string, pos token.Pos) {
	fr.mayPanic(pre, nil, callee, nil, name, pos)
}

// panicChoice makes the panic edges of a function mutually exclusive: a run
// panics at (at most) one site.  Without it the guarded equalities of the
// merged panic state would constrain the normal paths as well.
func (vc *VC) panicChoice() Term {
	sel := vc.declConst("panicSel", "Int")
	vc.nPanicEdges++
	return "(= " + sel + " " + fmt.Sprint(vc.nPanicEdges) + ")"
}

// tableEntryKeeps: a builtin table entry without a contract of its own that is
// called directly (opLet -> opProgn) keeps what the LBuiltin type contract
// keeps: the C09 sweep proves `keeps` for every table entry.  Only used while
// verifying a function that itself claims `keeps`.
func (vc *VC) tableEntryKeeps(callee *ssa.Function) *Contract {
	if callee == nil || vc.con == nil || len(vc.con.Keeps) == 0 {
		return nil
	}
	eng := vc.eng
	if eng.entrySet == nil {
		eng.entrySet = map[*ssa.Function]bool{}
		for _, ent := range eng.collectBuiltins() {
			if !ent.Validator {
				eng.entrySet[ent.Fn] = true
			}
		}
	}
	if !eng.entrySet[callee] {
		return nil
	}
	tc := eng.cs.Types[repoPrefix+"/lisp::LBuiltin"]
	if tc == nil || len(tc.Keeps) == 0 {
		return nil
	}
	vc.note("direct call of the builtin table entry " + shortFn(callee) + ": the `keeps` of the LBuiltin type contract is assumed (proved for that entry by the C09 sweep under its boundary precondition, which is not re-checked at the direct call)")
	return &Contract{Keeps: tc.Keeps, PkgPath: tc.PkgPath}
}
