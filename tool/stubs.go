package main

import (
	"golang.org/x/tools/go/ssa"
	"encoding/json"
	"flag"
	"fmt"
	"go/types"
	"os"
	"path/filepath"
	"sort"
	"strings"
)

// lemmaObligation turns `//@ lemma name (x:Int, ...) : expr` into a closed SMT goal.
func (eng *Engine) lemmaObligation(lm *LemmaSpec) *Obligation {
	vc := newVC(eng, nil, nil, nil, nil)
	vc.lemmaName = "lemma " + lm.Name
	st := vc.initialState()
	binds := map[string]Val{}
	for _, v := range lm.Vars {
		parts := strings.SplitN(v, ":", 2)
		name := strings.TrimSpace(parts[0])
		sortS := "Int"
		var ty types.Type = types.Typ[types.Int]
		if len(parts) == 2 {
			switch strings.TrimSpace(parts[1]) {
			case "Bool", "bool":
				sortS, ty = "Bool", types.Typ[types.Bool]
			case "int64", "int", "Int":
				sortS = "Int"
			case "string", "Str":
				sortS, ty = vc.strSort(), types.Typ[types.String]
			}
		}
		n := vc.declConst("lv_"+name, sortS)
		if strings.HasSuffix(v, "int64") || strings.HasSuffix(v, ":int") {
			vc.assume(vc.typeInv(n, types.Typ[types.Int64]))
		}
		binds[name] = Val{T: n, Ty: ty}
	}
	env := &SpecEnv{vc: vc, pkgPath: lm.PkgPath, binds: binds, cur: st, old: st}
	goal := env.boolExpr(lm.Expr)
	o := &Obligation{Name: "lemma/" + lm.Name, Kind: "lemma", Func: "lemma", Prefix: len(vc.asserts), Guard: "true", Goal: goal, vc: vc, Pos: lm.Pos, Props: lm.Props}
	return o
}

// sweepItems: property-specific zero-annotation obligation families (filled in sweeps.go).
func (eng *Engine) sweepItems(prop string) []*Item {
	var out []*Item
	for _, f := range sweepFuncs[prop] {
		out = append(out, f(eng)...)
	}
	return out
}

var sweepFuncs = map[string][]func(*Engine) []*Item{}

// ---------------------------------------------------------------- selftest (must-fail corpus)

type Mutant struct {
	File     string   `json:"file"` // relative to /repo
	Old      string   `json:"old"`
	New      string   `json:"new"`
	Expect   []string `json:"expect"`   // substrings of obligation names expected to fail
	Negative bool     `json:"negative"` // semantics-preserving rewrite: nothing may fail
	Note     string   `json:"note"`
	name     string
}

func loadMutants(prop string) []Mutant {
	dir := filepath.Join(verifDir, "selftest", prop)
	ents, _ := os.ReadDir(dir)
	var out []Mutant
	for _, e := range ents {
		if !strings.HasSuffix(e.Name(), ".mut") {
			continue
		}
		b, err := os.ReadFile(filepath.Join(dir, e.Name()))
		if err != nil {
			continue
		}
		var m Mutant
		if err := json.Unmarshal(b, &m); err != nil {
			fmt.Printf("selftest: bad mutant file %s: %v\n", e.Name(), err)
			continue
		}
		m.name = e.Name()
		out = append(out, m)
	}
	sort.Slice(out, func(i, j int) bool { return out[i].name < out[j].name })
	return out
}

// runMutant applies one in-memory rewrite and reports the locked obligations that fail.
var pristine *Engine

// ssaText renders every repository function; two engines are compared to find
// the functions a mutant actually changed.
func ssaText(eng *Engine) map[string]string {
	out := map[string]string{}
	for _, fn := range eng.repoFuncs() {
		var b strings.Builder
		fn.WriteTo(&b)
		// the printed form abbreviates long string constants: add them in full
		for _, blk := range fn.Blocks {
			for _, in := range blk.Instrs {
				for _, op := range in.Operands(nil) {
					if op == nil || *op == nil {
						continue
					}
					if c, ok := (*op).(*ssa.Const); ok && c.Value != nil {
						b.WriteString(c.Value.ExactString())
						b.WriteByte('\n')
					}
				}
			}
		}
		out[fn.String()] = b.String()
	}
	return out
}

var pristineText map[string]string

// affectedFuncs: functions whose SSA differs from the pristine tree, plus their
// transitive static callers (a caller may inline or depend on a changed callee).
func affectedFuncs(eng *Engine) map[string]bool {
	if pristine == nil {
		p, err := loadEngine("/repo", repoPkgPatterns, nil)
		if err != nil {
			return nil
		}
		pristine = p
		pristineText = ssaText(p)
	}
	cur := ssaText(eng)
	changed := map[string]bool{}
	for n, t := range cur {
		if pristineText[n] != t {
			changed[n] = true
		}
	}
	for n := range pristineText {
		if _, ok := cur[n]; !ok {
			changed[n] = true
		}
	}
	// callers closure
	callers := map[string][]string{}
	for _, fn := range eng.repoFuncs() {
		for _, b := range fn.Blocks {
			for _, in := range b.Instrs {
				if ci, ok := in.(ssa.CallInstruction); ok {
					if c := ci.Common().StaticCallee(); c != nil {
						callers[c.String()] = append(callers[c.String()], fn.String())
					}
				}
				if mc, ok := in.(*ssa.MakeClosure); ok {
					if f, ok := mc.Fn.(*ssa.Function); ok {
						callers[f.String()] = append(callers[f.String()], fn.String())
					}
				}
			}
		}
	}
	work := sortedKeys(changed)
	for len(work) > 0 {
		n := work[len(work)-1]
		work = work[:len(work)-1]
		for _, c := range callers[n] {
			if !changed[c] {
				changed[c] = true
				work = append(work, c)
			}
		}
	}
	return changed
}

func runMutant(prop string, m Mutant, seed int) (failed []string, err error) {
	path := filepath.Join("/repo", m.File)
	src, e := os.ReadFile(path)
	if e != nil {
		return nil, e
	}
	if !strings.Contains(string(src), m.Old) {
		return nil, fmt.Errorf("pattern not found in %s (source changed; mutant is stale)", m.File)
	}
	ov := map[string][]byte{path: []byte(strings.Replace(string(src), m.Old, m.New, 1))}
	eng, e := loadEngine("/repo", repoPkgPatterns, ov)
	if e != nil {
		return nil, e
	}
	only := affectedFuncs(eng)
	run := runPropertyFiltered(eng, prop, "quick", seed, 0, only, false)
	lock := readLock()
	generated := map[string]bool{}
	genFuncs := map[string]bool{}
	for _, it := range run.Items {
		generated[it.Name] = true
		genFuncs[it.Func] = true
		if it.Locked && it.Status != "discharged" {
			failed = append(failed, it.Name)
		}
	}
	for _, n := range lock[prop] {
		// only functions that were regenerated can have lost an obligation
		fnOf := n
		if i := strings.Index(n, "/"); i > 0 {
			fnOf = n[:i]
		}
		if only != nil && !genFuncs[fnOf] && !strings.HasPrefix(n, "frame/") {
			continue
		}
		if !generated[n] {
			for _, p := range strings.Split(n, "/") {
				if contractKind(p) {
					failed = append(failed, n+" (not generated)")
					break
				}
			}
		}
	}
	return failed, nil
}

func runSelftest(prop string, seed int) (bool, []string) {
	ok := true
	var notes []string
	for _, m := range loadMutants(prop) {
		failed, err := runMutant(prop, m, seed)
		if err != nil {
			notes = append(notes, fmt.Sprintf("%s: skipped (%v)", m.name, err))
			continue
		}
		if m.Negative {
			if len(failed) > 0 {
				ok = false
				notes = append(notes, fmt.Sprintf("%s: NEGATIVE CONTROL FAILED (brittle proof): %s", m.name, strings.Join(failed, ", ")))
			} else {
				notes = append(notes, fmt.Sprintf("%s: negative control ok", m.name))
			}
			continue
		}
		hit := len(failed) > 0
		for _, ex := range m.Expect {
			found := false
			for _, f := range failed {
				if strings.Contains(f, ex) {
					found = true
				}
			}
			if !found {
				hit = false
			}
		}
		if hit {
			notes = append(notes, fmt.Sprintf("%s: detected (%d locked obligations fail)", m.name, len(failed)))
		} else {
			ok = false
			notes = append(notes, fmt.Sprintf("%s: NOT DETECTED as expected (failed: %s)", m.name, strings.Join(failed, ", ")))
		}
	}
	return ok, notes
}

func cmdSelftest(args []string) int {
	fs := flag.NewFlagSet("selftest", flag.ExitOnError)
	prop := fs.String("property", "", "property id (empty = all with a corpus)")
	fs.Parse(args)
	var props []string
	if *prop != "" {
		props = strings.Split(*prop, ",")
	} else {
		ents, _ := os.ReadDir(filepath.Join(verifDir, "selftest"))
		for _, e := range ents {
			if e.IsDir() {
				props = append(props, e.Name())
			}
		}
	}
	all := true
	for _, p := range props {
		ok, notes := runSelftest(p, 0)
		for _, n := range notes {
			fmt.Printf("%s %s\n", p, n)
		}
		if !ok {
			all = false
		}
	}
	if !all {
		return 1
	}
	return 0
}

// ---------------------------------------------------------------- replay

// replayViolation writes the replay file of a violated obligation and tries to
// confirm the solver's counter-model on the real code.
func replayViolation(run *CheckRun, it *Item) (string, bool) {
	extra := map[string]any{}
	confirmed := false
	if strings.HasPrefix(strings.TrimSpace(it.Raw), "sat") {
		model := parseModel(it.Raw)
		extra["model_inputs"] = model
		if ok, info := concreteReplay(run.Prop, it, model); info != nil {
			extra["concrete_replay"] = info
			confirmed = ok
		}
	}
	return writeReplay(run.Prop, it, extra), confirmed
}

func cmdReplay(args []string) int {
	if len(args) < 1 {
		fmt.Println("usage: govc replay <replay.json>")
		return 2
	}
	b, err := os.ReadFile(args[0])
	if err != nil {
		fmt.Println(err)
		return 2
	}
	var m map[string]any
	if err := json.Unmarshal(b, &m); err != nil {
		fmt.Println(err)
		return 2
	}
	fmt.Printf("obligation: %v\nsource: %v\nstatus: %v\ndetail: %v\n", m["obligation"], m["source"], m["status"], m["detail"])
	if cr, ok := m["concrete_replay"].(map[string]any); ok {
		if cmd, ok := cr["cmd"].(string); ok {
			fmt.Println("re-running:", cmd)
			return rerunConcrete(cr)
		}
	}
	// re-run the solver on the recorded SMT file when it still exists
	if f, ok := m["smt_file"].(string); ok && f != "" {
		if _, err := os.Stat(f); err == nil {
			r := solve(f, 30000, 0)
			fmt.Printf("solver re-run: %s (%s, %.2fs)\n", r.Status, r.Solver, r.Secs)
			if r.Status != "unsat" {
				return 1
			}
			return 0
		}
	}
	fmt.Println("no concrete input recorded (no-failing-input-found); re-run the check to regenerate the obligation")
	return 1
}
