package main

import (
	"fmt"
	"go/token"
	"go/types"
	"os"
	"sort"
	"strings"

	"golang.org/x/tools/go/packages"
	"golang.org/x/tools/go/ssa"
	"golang.org/x/tools/go/ssa/ssautil"
)

var repoPkgPatterns = []string{
	"./lisp", "./lisp/lisplib/...", "./parser/...", "./formatter", "./minifier", "./analysis", "./lint", "./cmd",
}

func goEnv() []string {
	env := os.Environ()
	var out []string
	for _, e := range env {
		if strings.HasPrefix(e, "PATH=") || strings.HasPrefix(e, "GOFLAGS=") || strings.HasPrefix(e, "GOPROXY=") ||
			strings.HasPrefix(e, "GOSUMDB=") || strings.HasPrefix(e, "GOTOOLCHAIN=") {
			continue
		}
		out = append(out, e)
	}
	out = append(out, "PATH=/opt/veriftools/go1.26.8/bin:"+os.Getenv("PATH"), "GOFLAGS=-mod=mod", "GOPROXY=off", "GOSUMDB=off", "GOTOOLCHAIN=local")
	return out
}

// loadEngine loads /repo (current working tree, tag verif) and builds SSA.
func loadEngine(repo string, patterns []string, overlay map[string][]byte) (*Engine, error) {
	cfg := &packages.Config{Mode: packages.LoadAllSyntax, Dir: repo, BuildFlags: []string{"-tags=verif"}, Env: goEnv(), Overlay: overlay}
	pkgs, err := packages.Load(cfg, patterns...)
	if err != nil {
		return nil, err
	}
	var errs []string
	packages.Visit(pkgs, nil, func(p *packages.Package) {
		if !strings.HasPrefix(p.PkgPath, "github.com/luthersystems/elps") {
			return
		}
		for _, e := range p.Errors {
			errs = append(errs, e.Error())
		}
	})
	if len(errs) > 0 {
		return nil, fmt.Errorf("load errors: %s", strings.Join(errs, "; "))
	}
	prog, spkgs := ssautil.AllPackages(pkgs, ssa.BuilderMode(0))
	prog.Build()
	eng := &Engine{overlay: overlay, pkgs: pkgs, prog: prog, spkgs: map[string]*ssa.Package{}, conOf: map[*ssa.Function]*Contract{}, byName: map[string]*ssa.Function{}, effMemo: map[*ssa.Function]*effSet{}}
	if len(pkgs) > 0 {
		eng.fset = pkgs[0].Fset
	}
	for _, sp := range spkgs {
		if sp != nil {
			eng.spkgs[sp.Pkg.Path()] = sp
		}
	}
	eng.allFuncs = ssautil.AllFunctions(prog)
	for fn := range eng.allFuncs {
		eng.byName[fn.String()] = fn
	}
	eng.cs = loadContracts(pkgs)
	eng.errors = append(eng.errors, eng.cs.Errors...)
	for key, con := range eng.cs.ByTarget {
		fn := eng.resolveTarget(con.PkgPath, con.Target)
		if fn == nil {
			eng.errorf("%s: contract target %s not found (contract target changed)", con.Pos, key)
			if len(con.Props) > 0 {
				if eng.errProps == nil {
					eng.errProps = map[string][]string{}
				}
				eng.errProps[eng.errors[len(eng.errors)-1]] = con.Props
			}
			continue
		}
		eng.conOf[fn] = con
	}
	return eng, nil
}

func (eng *Engine) errorf(f string, a ...any) {
	msg := fmt.Sprintf(f, a...)
	for _, e := range eng.errors {
		if e == msg {
			return
		}
	}
	eng.errors = append(eng.errors, msg)
}

func (eng *Engine) allPkgs() []*types.Package {
	var out []*types.Package
	seen := map[string]bool{}
	packages.Visit(eng.pkgs, nil, func(p *packages.Package) {
		if !seen[p.PkgPath] && p.Types != nil {
			seen[p.PkgPath] = true
			out = append(out, p.Types)
		}
	})
	sort.Slice(out, func(i, j int) bool {
		// prefer repo packages
		ri := strings.HasPrefix(out[i].Path(), "github.com/luthersystems/elps")
		rj := strings.HasPrefix(out[j].Path(), "github.com/luthersystems/elps")
		if ri != rj {
			return ri
		}
		return out[i].Path() < out[j].Path()
	})
	return out
}

// resolveTarget finds the SSA function named by a contract target:
// Name | (*T).Name | (T).Name | any of these followed by $n (anonymous function).
func (eng *Engine) resolveTarget(pkgPath, target string) *ssa.Function {
	sp := eng.spkgs[pkgPath]
	if sp == nil {
		return nil
	}
	base := target
	var anon []string
	if i := strings.Index(target, "$"); i >= 0 {
		base = target[:i]
		anon = strings.Split(target[i+1:], "$")
	}
	var fn *ssa.Function
	if strings.HasPrefix(base, "(") {
		rp := strings.Index(base, ")")
		if rp < 0 || rp+2 > len(base) {
			return nil
		}
		tname := strings.TrimPrefix(base[1:rp], "*")
		ptr := strings.HasPrefix(base[1:rp], "*")
		mname := base[rp+2:]
		tm, ok := sp.Members[tname].(*ssa.Type)
		if !ok {
			return nil
		}
		var t types.Type = tm.Type()
		if ptr {
			t = types.NewPointer(t)
		}
		sel := eng.prog.MethodSets.MethodSet(t).Lookup(sp.Pkg, mname)
		if sel == nil {
			return nil
		}
		fn = eng.prog.MethodValue(sel)
	} else {
		f, ok := sp.Members[base].(*ssa.Function)
		if !ok {
			return nil
		}
		fn = f
	}
	for _, a := range anon {
		var n int
		fmt.Sscanf(a, "%d", &n)
		if fn == nil || n < 1 || n > len(fn.AnonFuncs) {
			return nil
		}
		fn = fn.AnonFuncs[n-1]
	}
	return fn
}

func (eng *Engine) lookupType(pkgPath, name string) types.Type {
	if strings.ContainsAny(name, "()[] ") {
		return nil
	}
	pk := pkgPath
	tn := name
	if i := strings.Index(name, "."); i >= 0 {
		// pkgname.Type
		for _, p := range eng.allPkgs() {
			if p.Name() == name[:i] {
				if o, ok := p.Scope().Lookup(name[i+1:]).(*types.TypeName); ok {
					return o.Type()
				}
			}
		}
		return nil
	}
	for _, p := range eng.pkgs {
		if p.PkgPath == pk {
			if o, ok := p.Types.Scope().Lookup(tn).(*types.TypeName); ok {
				return o.Type()
			}
		}
	}
	if sp := eng.spkgs[pk]; sp != nil {
		if o, ok := sp.Pkg.Scope().Lookup(tn).(*types.TypeName); ok {
			return o.Type()
		}
	}
	return nil
}

func (eng *Engine) lookupGlobal(pkgPath, name string) *ssa.Global {
	if sp := eng.spkgs[pkgPath]; sp != nil {
		if g, ok := sp.Members[name].(*ssa.Global); ok {
			return g
		}
	}
	return nil
}

// specType computes the Go type of a contract expression (parameters only) without emitting SMT.
func (eng *Engine) specType(pkgPath string, fn *ssa.Function, expr string) types.Type {
	e, err := parseSpecExpr(expr)
	if err != nil {
		return nil
	}
	// evaluate in a scratch VC
	vc := newVC(eng, fn, nil, nil, nil)
	if fn == nil {
		return nil
	}
	st := vc.initialState()
	binds := map[string]Val{}
	for _, p := range fn.Params {
		binds[p.Name()] = Val{T: "p", Ty: p.Type()}
	}
	saved := len(eng.errors)
	env := &SpecEnv{vc: vc, fn: fn, pkgPath: pkgPath, binds: binds, cur: st, old: st}
	v := env.eval(e)
	eng.errors = eng.errors[:saved]
	return v.Ty
}

// FuncResult is the outcome of generating the VC of one function.
type FuncResult struct {
	Fn     *ssa.Function
	Con    *Contract
	VC     *VC
	Obls   []*Obligation
	Errors []string
	Passes int
}

// genFunc generates the obligations of one function under contract.
func (eng *Engine) genFunc(fn *ssa.Function, con *Contract) *FuncResult {
	res := &FuncResult{Fn: fn, Con: con}
	known := map[string]string{}
	var order []string
	errBase := len(eng.errors)
	for pass := 0; pass < 8; pass++ {
		eng.errors = eng.errors[:errBase]
		vc := newVC(eng, fn, con, known, order)
		vc.runTop()
		res.VC = vc
		res.Passes = pass + 1
		if !vc.restart {
			break
		}
		known, order = vc.heapSort, vc.heapOrder
	}
	res.Obls = res.VC.obls
	res.Errors = append(res.Errors, eng.errors[errBase:]...)
	for _, o := range res.Obls {
		if con != nil {
			o.Props = con.Props
		}
	}
	return res
}

func (vc *VC) runTop() {
	fn := vc.fn
	con := vc.con
	st := vc.initialState()
	fr := vc.newFrame(fn, 0, false)
	fr.top = true
	vc.params = map[string]Val{}
	for _, p := range fn.Params {
		n := vc.declConst("p_"+p.Name(), vc.sortOf(p.Type()))
		vc.introduce(st, n, p.Type())
		v := Val{T: n, Ty: p.Type()}
		fr.vals[p] = v
		fr.binds[p.Name()] = v
		vc.params[p.Name()] = v
	}
	for _, fv := range fn.FreeVars {
		n := vc.declConst("fv_"+fv.Name(), vc.sortOf(fv.Type()))
		vc.introduce(st, n, fv.Type())
		v := Val{T: n, Ty: fv.Type()}
		fr.vals[fv] = v
		fr.binds[fv.Name()] = v
		vc.params[fv.Name()] = v
	}
	vc.assume("(>= " + st.heap["CLK"] + " 1)")
	vc.entry = st.clone()
	if con != nil {
		for g := range con.Ghosts {
			vc.ghostVar(g)
		}
		for _, c := range con.Counts {
			vc.ghostVar(c.Ghost)
		}
		for _, rq := range con.Requires {
			env := &SpecEnv{vc: vc, fn: fn, binds: vc.topBinds(), cur: vc.entry, old: vc.entry}
			vc.assume(env.boolExpr(rq.Expr))
		}
		for _, u := range con.Uses {
			ax := vc.eng.cs.Axioms[u]
			if ax == nil {
				vc.eng.errorf("%s: unknown axiom %q", vc.fnName(), u)
				continue
			}
			env := &SpecEnv{vc: vc, fn: nil, pkgPath: ax.PkgPath, binds: map[string]Val{}, cur: vc.entry, old: vc.entry}
			vc.assume(env.boolExpr(ax.Expr))
			vc.usedAxioms = append(vc.usedAxioms, ax)
			vc.note("axiom " + ax.Name + " (" + ax.Pos + "): " + ax.Text)
		}
		// owned parameters: treated as protected objects (fields survive calls)
		for _, o := range con.Owned {
			if v, ok := vc.params[o]; ok {
				if p, ok := v.Ty.Underlying().(*types.Pointer); ok {
					st.locals = append(st.locals, localRef{v.T, p.Elem()})
					vc.note("owned parameter " + o + ": callees are assumed not to write its fields (type contract of the caller)")
				}
			}
		}
	}
	// vacuity: the precondition together with the type invariants is satisfiable
	cov := &Obligation{Name: vc.fnName() + "/cover/requires-satisfiable", Kind: "cover", Func: vc.fnName(), Prefix: len(vc.asserts), Guard: "true", Goal: "true", vc: vc, Cover: true}
	vc.obls = append(vc.obls, cov)

	vc.topFrame = fr
	fr.run(st)
	fr.finishPanics()

	if len(fr.rets) == 0 {
		return
	}
	var states []*State
	for _, r := range fr.rets {
		states = append(states, r.st)
	}
	exit := vc.merge(states)
	binds := vc.topBinds()
	nres := fn.Signature.Results().Len()
	named := namedResults(fn)
	for i := 0; i < nres; i++ {
		rt := fn.Signature.Results().At(i).Type()
		var rv Val
		if len(fr.rets) == 1 && fr.rets[0].vals[i].Place == nil {
			rv = fr.rets[0].vals[i]
			rv.Ty = rt
		} else {
			n := vc.freshConst("result", vc.sortOf(rt))
			for _, r := range fr.rets {
				if r.vals[i].Place != nil {
					vc.unsupported("returning a field address")
					continue
				}
				vc.assume(smtImp(r.st.reach, smtEq(n, r.vals[i].T)))
			}
			rv = Val{T: n, Ty: rt}
		}
		binds[fmt.Sprintf("result%d", i)] = rv
		if i == 0 {
			binds["result"] = rv
		}
		if named != nil && named[i] != "" && named[i] != "_" {
			binds[named[i]] = rv
		}
	}
	// reachability cover of every return (vacuity guard: an unreachable return
	// means an assumption upstream is contradictory)
	if len(fr.rets) > 1 && len(fr.rets) <= 40 {
		for i, r := range fr.rets {
			vc.obls = append(vc.obls, &Obligation{Name: fmt.Sprintf("%s/cover/return-%d-reachable", vc.fnName(), i+1), Kind: "cover", Func: vc.fnName(), Prefix: len(vc.asserts), Guard: r.st.reach, Goal: "true", vc: vc, Cover: true})
		}
	}
	// reachability cover of the normal exit
	vc.obls = append(vc.obls, &Obligation{Name: vc.fnName() + "/cover/exit-reachable", Kind: "cover", Func: vc.fnName(), Prefix: len(vc.asserts), Guard: exit.reach, Goal: "true", vc: vc, Cover: true})
	if con == nil {
		return
	}
	for _, en := range con.Ensures {
		env := &SpecEnv{vc: vc, fn: fn, binds: binds, cur: exit, old: vc.entry}
		o := vc.oblige(exit, "ensures", en.label(), env.boolExpr(en.Expr), fn.Pos())
		if o != nil {
			o.Pos = en.Pos
		}
	}
	if con.ModSet {
		vc.frameObligations(exit, binds)
	}
	if len(con.Keeps) > 0 {
		// one goal per return: the merged exit heap is an ite over the return
		// states, which quantifier instantiation handles badly
		if len(fr.rets) > 1 && len(fr.rets) <= 40 {
			for _, r := range fr.rets {
				vc.keepsOblige(con, vc.entry, r.st, "keeps", fn.Pos())
			}
		} else {
			vc.keepsOblige(con, vc.entry, exit, "keeps", fn.Pos())
		}
	}
}

// frameObligations: every heap variable not named by `modifies` is unchanged on
// objects allocated before the call.
func (vc *VC) frameObligations(exit *State, binds map[string]Val) {
	con := vc.con
	whole := map[string]bool{}
	locs := map[string][]Term{}
	for _, m := range con.Modifies {
		vars, all := vc.modVars(con, vc.fn, m)
		if all {
			return
		}
		if loc, ok := vc.modLocation(con, vc.fn, m, binds, vc.entry); ok && len(vars) == 1 {
			locs[vars[0]] = append(locs[vars[0]], loc)
			continue
		}
		for _, v := range vars {
			whole[v] = true
		}
	}
	for _, name := range vc.heapOrder {
		if name == "CLK" || whole[name] {
			continue
		}
		if strings.HasPrefix(name, "Gh_") || strings.HasPrefix(name, "DF_") {
			continue
		}
		a, b := vc.get(vc.entry, name), vc.get(exit, name)
		if a == b {
			continue
		}
		srt := vc.heapSort[name]
		var goal Term
		if strings.HasPrefix(srt, "(Array Ref ") {
			r := vc.freshConst("frame_r", "Ref")
			var conds []Term
			conds = append(conds, "(< (at "+r+") "+vc.entry.heap["CLK"]+")")
			for _, l := range locs[name] {
				if strings.HasPrefix(l, "RANGE:") {
					conds = append(conds, "(not "+strings.ReplaceAll(strings.TrimPrefix(l, "RANGE:"), "?r", r)+")")
					continue
				}
				conds = append(conds, "(not (= "+r+" "+l+"))")
			}
			goal = smtImp(smtAnd(conds...), fmt.Sprintf("(= (select %s %s) (select %s %s))", b, r, a, r))
		} else {
			goal = smtEq(a, b)
		}
		o := vc.oblige(exit, "frame", "unchanged "+name, goal, vc.fn.Pos())
		if o != nil {
			o.Pos = con.Pos
		}
	}
}

// sourceLine returns the text of the source line containing pos.
func (eng *Engine) sourceLine(pos token.Pos) string {
	if !pos.IsValid() {
		return ""
	}
	p := eng.fset.Position(pos)
	if eng.srcCache == nil {
		eng.srcCache = map[string][]string{}
	}
	lines, ok := eng.srcCache[p.Filename]
	if !ok {
		b, err := os.ReadFile(p.Filename)
		if err == nil {
			lines = strings.Split(string(b), "\n")
		}
		if ov, ok := eng.overlay[p.Filename]; ok {
			lines = strings.Split(string(ov), "\n")
		}
		eng.srcCache[p.Filename] = lines
	}
	if p.Line-1 < len(lines) && p.Line >= 1 {
		return strings.TrimSpace(lines[p.Line-1])
	}
	return ""
}

// lineOrdinal: 1-based position of pos's line among the lines of fn's source
// whose (whitespace-normalised) text equals want.
func (eng *Engine) lineOrdinal(fn *ssa.Function, pos token.Pos, want string) int {
	if !pos.IsValid() || fn.Syntax() == nil {
		return 0
	}
	p := eng.fset.Position(pos)
	start := eng.fset.Position(fn.Syntax().Pos()).Line
	end := eng.fset.Position(fn.Syntax().End()).Line
	eng.sourceLine(pos) // fills the cache
	lines := eng.srcCache[p.Filename]
	norm := func(s string) string { return strings.Join(strings.Fields(s), " ") }
	n := 0
	for ln := start; ln <= end && ln-1 < len(lines); ln++ {
		if norm(lines[ln-1]) == norm(want) {
			n++
			if ln == p.Line {
				return n
			}
		}
	}
	return 0
}
