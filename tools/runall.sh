#!/bin/bash
# run every claimed check (default tier quick) on the current tree; print one line each
tier=${1:-quick}
for p in $(python3 -c "import json;print(' '.join(c['property_id'] for c in json.load(open('/verif/MANIFEST.json'))['checks']))"); do
  out=$(/verif/bin/govc check --property $p --tier $tier 2>&1); rc=$?
  echo "$p rc=$rc $(echo "$out" | grep '^govc' | cut -c1-150)"
  echo "$out" | grep -E "VIOLATION|KNOWN-FINDING|contract error|selftest: .*(MISSED|not)" | head -5
done
