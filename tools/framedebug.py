#!/usr/bin/env python3
"""framedebug.py <smt2 file> <heapvar> : for a failing frame obligation, show which versions of the
heap variable differ from the entry version at the skolem reference in the solver's model, and the
edges taken."""
import re,subprocess,sys
f,var=sys.argv[1],sys.argv[2]
s=open(f).read()
sk=re.findall(r'frame_r![0-9]+',s.split('(check-sat)')[0].split('\n')[-2])[0]
names=sorted(set(re.findall(re.escape(var)+r'[!@][0-9]+',s)), key=lambda x:int(re.findall(r'\d+',x)[-1]))
q=s.replace('(get-model)','')
for n in names:
    q+=f'(eval (= (select {n} {sk}) (select {var}@0 {sk})))\n'
q+=f'(eval {sk})\n'
open('/tmp/fd.smt2','w').write(q)
out=subprocess.run(['z3','-t:30000','/tmp/fd.smt2'],capture_output=True,text=True).stdout.split('\n')
print(out[0])
for n,o in zip(names,out[1:]): print(n,o)
print('skolem =',out[1+len(names)] if len(out)>1+len(names) else '?')
m=subprocess.run(['z3','-t:30000',f],capture_output=True,text=True).stdout
e=re.findall(r'\(define-fun (\|?[a-zA-Z_0-9]*(?:edge)[a-zA-Z_0-9]*![0-9]+\|?) \(\) Bool\s+true\)',m)
print(e)
