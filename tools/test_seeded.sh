#!/bin/bash
# usage: test_seeded.sh [ids...]   (default: every /verif/seeded/* directory)
# Applies each seeded change to /repo, runs the property's quick check, records
# what it reported, and reverts the change straight afterwards.
set -u
cd /verif
ids=("$@"); [ ${#ids[@]} -eq 0 ] && ids=($(ls seeded))
if [ -n "$(git -C /repo status --porcelain)" ]; then echo "/repo is not clean; commit or stash first"; exit 2; fi
for id in "${ids[@]}"; do
  d=seeded/$id; prop=${id%%-*}
  if ! git -C /repo apply --check $PWD/$d/patch.diff 2>/dev/null; then echo "$id: patch does not apply to the current tree"; continue; fi
  git -C /repo apply $PWD/$d/patch.diff
  out=$(./bin/govc check --property $prop --tier quick 2>&1); rc=$?
  git -C /repo apply -R $PWD/$d/patch.diff
  n=$(echo "$out" | grep -c '^VIOLATION')
  echo "$id rc=$rc violations=$n"
  echo "$out" | grep '^failed obligation' | cut -c1-200 | head -4 | sed 's/^/    /'
done
if [ -n "$(git -C /repo status --porcelain)" ]; then echo "WARNING: /repo not clean after run"; fi
