#!/bin/bash
# usage: test_neutral.sh [ids...]  -- behaviour-preserving changes (/verif/neutral/*):
# apply each to /repo, run the quick checks of the properties that watch the
# touched file, expect NO violation, revert.
set -u
cd /verif
ids=("$@"); [ ${#ids[@]} -eq 0 ] && ids=($(ls neutral))
if [ -n "$(git -C /repo status --porcelain)" ]; then echo "/repo is not clean"; exit 2; fi
props_for() {
  case "$1" in
    *lisp/stack.go*) echo "C04 C05 C02";;
    *lisp/env.go*) echo "C01 C02 C04 C05 C06 C07 C08 C09 C18";;
    *lisp/builtins.go*) echo "C03 C09 C11 C02";;
    *lisp/op.go*) echo "C01 C06 C05 C02 C03";;
    *lisp/package.go*) echo "C08 C03";;
    *lisp/library.go*) echo "C20";;
    *libschema*) echo "C14 C03";;
    *libjson*) echo "C13 C10";;
    *libtime*) echo "C15 C04";;
    *) echo "C05";;
  esac
}
for id in "${ids[@]}"; do
  d=neutral/$id
  f=$(grep -m1 '^+++ b/' $d/patch.diff | sed 's|^+++ b/||')
  if ! git -C /repo apply --check $PWD/$d/patch.diff 2>/dev/null; then echo "$id: patch does not apply"; continue; fi
  git -C /repo apply $PWD/$d/patch.diff
  res=""
  for p in $(props_for "$f"); do
    out=$(./bin/govc check --property $p --tier quick 2>&1); rc=$?
    n=$(echo "$out" | grep -c '^VIOLATION')
    res="$res $p:rc=$rc/v=$n"
    if [ $n -gt 0 ]; then echo "$out" | grep '^failed obligation' | cut -c1-220 | head -3 | sed "s/^/    [$p] /"; fi
  done
  git -C /repo apply -R $PWD/$d/patch.diff
  echo "$id ($f):$res"
done
if [ -n "$(git -C /repo status --porcelain)" ]; then echo "WARNING: /repo not clean after run"; fi
