#!/usr/bin/env python3
# usage: lock_add.py <property> <func-suffix> <name-regex>
# Adds to obligations.lock the obligations of one function whose name matches
# the regex and that discharge in two dump runs (a full `govc lock` re-solves
# the whole property; this adds new clauses without touching the rest).
import json,re,subprocess,sys
prop,func,rx=sys.argv[1:4]
def run():
    out=subprocess.run(['/verif/bin/govc','dump','-v','--property',prop,'--func',func],capture_output=True,text=True).stdout
    ok=set(); allg=set()
    for l in out.split('\n'):
        m=re.match(r'\s+(ok|FAIL)\s+(\S+)\s+([\d.]+)s\s+(\S+)\s+(.*?)\s+\[',l)
        if not m: continue
        name=m.group(5).strip()
        if '/cover/' in name or not re.search(rx,name): continue
        allg.add(name)
        if m.group(1)=='ok' and m.group(2)=='unsat' and float(m.group(3))<3.5: ok.add(name)
    return ok,allg
a,ga=run(); b,gb=run()
good=a&b
lock=json.load(open('/verif/obligations.lock'))
names=set(lock.get(prop,[]))
bases={}
for n in ga|gb:
    base=n[:n.rindex('#')] if '#' in n else n
    bases.setdefault(base,[]).append(n)
for n in sorted(good):
    names.add(n); print('locked',n)
for base,insts in bases.items():
    if all(i in good for i in insts):
        names.add('CLAUSE:'+base)
for n in sorted((ga|gb)-good): print('NOT locked (does not discharge twice under 3.5s):',n)
lock[prop]=sorted(names)
json.dump(lock,open('/verif/obligations.lock','w'),indent=1)
