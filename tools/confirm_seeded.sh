#!/bin/bash
# usage: confirm_seeded.sh <worktree> <k> <demo-dir-relative> <out-id> <property>
# Confirms a seeded change: suite passes with it, demo fails with it, demo passes without it.
set -u
export PATH=/opt/veriftools/go1.26.8/bin:$PATH GOTOOLCHAIN=local GOFLAGS=-mod=mod GOPROXY=off GOSUMDB=off
WT=$1; K=$2; DDIR=$3; ID=$4; PROP=$5
SRC=$WT/_out/$K
cd $WT || exit 2
git checkout -q -- . ; git clean -fdq -e _out
git apply $SRC/patch.diff || { echo "$ID: patch does not apply"; exit 2; }
go build ./... || { echo "$ID: does not compile"; git checkout -q -- .; exit 2; }
suite=pass
go test -vet=off -count=1 -timeout 25m ./... > /tmp/seed_$ID.suite.log 2>&1 || suite=fail
cp $SRC/demo_test.go $DDIR/zz_seed_demo_test.go
demo_with=pass
go test -vet=off -count=1 -timeout 10m ./$DDIR/ -run 'Seed|Demo|Test' > /tmp/seed_$ID.with.log 2>&1 || demo_with=fail
# only the demo's own tests matter: re-run restricted to the test names in the demo file
names=$(grep -o '^func Test[A-Za-z0-9_]*' $SRC/demo_test.go | sed 's/func //' | paste -sd'|')
demo_with=pass
go test -vet=off -count=1 -timeout 10m ./$DDIR/ -run "^($names)\$" > /tmp/seed_$ID.with.log 2>&1 || demo_with=fail
git apply -R $SRC/patch.diff
demo_without=pass
go test -vet=off -count=1 -timeout 10m ./$DDIR/ -run "^($names)\$" > /tmp/seed_$ID.without.log 2>&1 || demo_without=fail
rm -f $DDIR/zz_seed_demo_test.go
git checkout -q -- .
echo "$ID property=$PROP suite_with_change=$suite demo_with_change=$demo_with demo_without_change=$demo_without"
