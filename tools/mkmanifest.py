#!/usr/bin/env python3
"""Regenerates /verif/MANIFEST.json from the table below (single source of truth)."""
import json, subprocess
ids=[json.loads(l)['id'] for l in open('/verif/properties.jsonl')]
# id -> (level text, level note, design ref)
claimed = json.load(open('/verif/tools/claims.json'))
na = json.load(open('/verif/tools/not_applicable.json'))
hooks=[l.split()[0] for l in subprocess.run(['git','-C','/repo','log','--format=%H %s'],capture_output=True,text=True).stdout.splitlines() if ' verif hook:' in ' '+l]
m={"version":1,
"setup_cmd":"cd /verif/tool && GOFLAGS=-mod=mod GOPROXY=off GOSUMDB=off GOTOOLCHAIN=local PATH=/opt/veriftools/go1.26.8/bin:$PATH go build -o ../bin/govc .",
"hooks":{"guard":"verif","enable":"contracts are //@ comments in /repo/**/zz_contracts_verif.go (//go:build verif); govc loads /repo with -tags=verif","baseline_off_cmd":"cd /repo && PATH=/opt/veriftools/go1.26.8/bin:$PATH GOTOOLCHAIN=local GOFLAGS=-mod=mod GOPROXY=off GOSUMDB=off go test -vet=off -count=1 -timeout 25m ./...","source_commits":hooks,"add_only":True},
"engines":[{"name":"govc","path":"/verif/tool","serves_properties":sorted(claimed.keys()),"kind_free_text":"weakest-precondition VC generator over go/ssa of the real code (x/tools v0.50.0) + frame (read/write/caller set) back end; obligations discharged by z3 5.1.0 / z3 4.8.12 / cvc5 1.0.3; contracts are //@ comments in /repo/**/zz_contracts_verif.go"}],
"checks":[],"not_applicable":[],"notes":"see DESIGN.md; obligations.lock pins the obligations that discharge on the pinned tree; known_findings.txt lists recorded defects"}
for i in ids:
    if i in claimed:
        c=claimed[i]
        m["checks"].append({"property_id":i,"quick_cmd":f"/verif/bin/govc check --property {i} --tier quick","thorough_cmd":f"/verif/bin/govc check --property {i} --tier thorough","evidence_file":f"/verif/evidence/{i}.json","replay_cmd_template":"/verif/bin/govc replay {path}","engine":"govc",
          "level_claimed":{"category":"proof","text":c["text"],"design_ref":c.get("design_ref","DESIGN.md §4 "+i)},"level_note":c["note"],"technique":c.get("technique","contract-based deductive verification: WP over go/ssa of the real functions, discharged by SMT (z3/cvc5), plus frame (writers/readers/callers) obligations")})
    else:
        m["not_applicable"].append({"property_id":i,"reason":na.get(i,"obligations not built yet; contract approach described in DESIGN §4")})
json.dump(m,open('/verif/MANIFEST.json','w'),indent=1)
print("claimed:",sorted(claimed.keys()))
