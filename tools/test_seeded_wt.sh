#!/bin/bash
# usage: test_seeded_wt.sh <worktree-of-/repo-HEAD> [ids...]
# Like test_seeded.sh, but applies each seeded change to a scratch worktree and
# points the check at it (govc check --repo), so /repo itself is never touched.
set -u
cd /verif
WT=$1; shift
ids=("$@"); [ ${#ids[@]} -eq 0 ] && ids=($(ls seeded))
for id in "${ids[@]}"; do
  d=seeded/$id; prop=${id%%-*}
  git -C $WT checkout -q -- . 
  if ! git -C $WT apply --check $PWD/$d/patch.diff 2>/dev/null; then echo "$id: patch does not apply to the current tree"; continue; fi
  git -C $WT apply $PWD/$d/patch.diff
  out=$(./bin/govc check --property $prop --tier quick --repo $WT 2>&1); rc=$?
  git -C $WT checkout -q -- .
  n=$(echo "$out" | grep -c '^VIOLATION')
  echo "$id rc=$rc violations=$n"
  echo "$out" | grep '^failed obligation' | cut -c1-200 | head -4 | sed 's/^/    /'
done
